(* Model of the Gnosis keyper's slot processing and transaction pointer bookkeeping:
     keyperimpl/gnosis/newslot.go   maybeTriggerDecryption, getTxPointer, triggerDecryption,
                                    getDecryptionIdentityPreimages,
                                    transactionSubmittedEventToIdentityPreimage,
                                    makeSlotIdentityPreimage, sortIdentityPreimages
     keyperimpl/gnosis/handlers.go  DecryptionKeysHandler.HandleMessage
     keyperimpl/gnosis/messagingmiddleware.go  interceptDecryptionKeys, advanceTxPointer
     keyperimpl/gnosis/keyper.go    Start: ResetAllTxPointerAges, latestTriggeredSlot = nil
   and of the SQL statements these paths reach (gnosiskeyper.sql: GetTxPointer, SetTxPointer,
   IncrementTxPointerAge, ResetAllTxPointerAges, GetTransactionSubmittedEvents,
   GetTransactionSubmittedEventCount, InsertTransactionSubmittedEvent,
   Get/SetTransactionSubmittedEventsSyncedUntil, Get/SetCurrentDecryptionTrigger,
   InsertSlotDecryptionSignature, GetSlotDecryptionSignatures; keyper.sql GetEonForBlockNumber;
   chainobserver keyper.sql GetKeyperSet, GetKeyperSetByKeyperConfigIndex), each with its
   relational meaning over lists of rows.

   Idealisations (named in props/C19.json): identities_hash = Keccak256(concatenation of the
   identity preimages) is represented by its preimage, the concatenation itself; the beacon
   proposer check (isProposerRegistered) is an input of the slot operation; keyper set
   membership of the own address is a boolean column of the keyper set row.

   Definitions only; the proofs are in Proofs/GnosisSlot*.v. *)
From Coq Require Import List NArith ZArith Bool Lia.
From Verif Require Import Lib.Bytes.
Import ListNotations.
Open Scope Z_scope.

(* ---------- machine integers ---------------------------------------------------------- *)

Definition two63 : Z := 9223372036854775808.
Definition two64 : Z := 18446744073709551616.
Definition max_i64 : Z := two63 - 1.
Definition max_i32 : Z := 2147483647.

(* uint64 arithmetic wraps *)
Definition u64 (x : Z) : Z := x mod two64.
(* Go's int64(x) of a uint64 / wrap-around of int64 arithmetic: two's complement *)
Definition to_i64 (x : Z) : Z := let y := x mod two64 in if y <? two63 then y else y - two64.

(* ---------- insertion sort by a boolean "less or equal" ------------------------------- *)

Section ISort.
  Variable A : Type.
  Variable leb : A -> A -> bool.

  Fixpoint insert_by (x : A) (l : list A) : list A :=
    match l with
    | [] => [x]
    | y :: t => if leb x y then x :: l else y :: insert_by x t
    end.

  Fixpoint isort_by (l : list A) : list A :=
    match l with
    | [] => []
    | x :: t => insert_by x (isort_by t)
    end.
End ISort.
Arguments insert_by {A} leb x l.
Arguments isort_by {A} leb l.

(* LIMIT n: the first n rows (n is a machine integer; no unary number is built from it) *)
Fixpoint ztake {A : Type} (n : Z) (l : list A) : list A :=
  match l with
  | [] => []
  | x :: t => if n <=? 0 then [] else x :: ztake (n - 1) t
  end.

(* ---------- rows ---------------------------------------------------------------------- *)

(* transaction_submitted_event: primary key (index, eon); sender is the text column (its
   bytes), as shdb.EncodeAddress wrote it *)
Record qrow := mkQ { q_index : Z; q_eon : Z; q_prefix : bytes; q_sender : bytes; q_gas : Z }.
(* tx_pointer: primary key eon; age NULL = None *)
Record prow := mkP { p_eon : Z; p_value : Z; p_age : option Z }.
(* current_decryption_trigger: primary key eon; t_ids stands for identities_hash *)
Record trow := mkT { t_eon : Z; t_slot : Z; t_ptr : Z; t_ids : bytes }.
(* slot_decryption_signatures: primary key (eon, slot, keyper_index) *)
Record srow := mkS { s_eon : Z; s_slot : Z; s_kidx : Z; s_ptr : Z; s_ids : bytes }.
(* eons: primary key eon *)
Record erow := mkE { e_eon : Z; e_height : Z; e_act : Z; e_kci : Z }.
(* keyper_set: primary key keyper_config_index; k_member: the own address is in keypers *)
Record krow := mkK { k_kci : Z; k_act : Z; k_member : bool; k_threshold : Z }.

Record config := mkCfg {
  cfg_gas_limit : Z;   (* Gnosis.EncryptedGasLimit, uint64 *)
  cfg_min_gas : Z;     (* Gnosis.MinGasPerTransaction, uint64 *)
  cfg_max_age : Z      (* Gnosis.MaxTxPointerAge, uint64 *)
}.

Record state := mkState {
  st_queue : list qrow;
  st_ptrs : list prow;
  st_trigs : list trow;
  st_sigs : list srow;
  st_eons : list erow;
  st_ksets : list krow;
  st_synced : option (Z * Z);    (* transaction_submitted_events_synced_until: (slot, block) *)
  st_latest : option Z           (* kpr.latestTriggeredSlot (in memory) *)
}.

Definition with_queue (st : state) (q : list qrow) : state :=
  mkState q (st_ptrs st) (st_trigs st) (st_sigs st) (st_eons st) (st_ksets st) (st_synced st) (st_latest st).
Definition with_ptrs (st : state) (p : list prow) : state :=
  mkState (st_queue st) p (st_trigs st) (st_sigs st) (st_eons st) (st_ksets st) (st_synced st) (st_latest st).
Definition with_trigs (st : state) (t : list trow) : state :=
  mkState (st_queue st) (st_ptrs st) t (st_sigs st) (st_eons st) (st_ksets st) (st_synced st) (st_latest st).
Definition with_sigs (st : state) (s : list srow) : state :=
  mkState (st_queue st) (st_ptrs st) (st_trigs st) s (st_eons st) (st_ksets st) (st_synced st) (st_latest st).
Definition with_synced (st : state) (s : option (Z * Z)) : state :=
  mkState (st_queue st) (st_ptrs st) (st_trigs st) (st_sigs st) (st_eons st) (st_ksets st) s (st_latest st).
Definition with_latest (st : state) (l : option Z) : state :=
  mkState (st_queue st) (st_ptrs st) (st_trigs st) (st_sigs st) (st_eons st) (st_ksets st) (st_synced st) l.

(* ---------- outcomes ------------------------------------------------------------------ *)

Inductive errclass :=
| EAlreadyProcessed   (* "processing slot %d for which a block has already been processed" *)
| EProposer           (* isProposerRegistered failed *)
| EIncrementAge       (* "failed to increment tx pointer age" *)
| ENoEon              (* "failed to query eon for block number" *)
| EPointer            (* getTxPointer failed (event count query) *)
| EGasLimitTooBig     (* "gas limit too big" *)
| ESelect             (* "failed to query transaction submitted events from index" *)
| ESender             (* "failed to decode sender address of transaction submitted event" *)
| ESetTrigger         (* "failed to insert published tx pointer into db" *)
| EInsertSignature    (* "failed to insert slot decryption signature" *)
| EKeyperSet          (* "failed to get keyper set from database for eon" *)
| ESignatures.        (* "failed to count slot decryption signatures" *)

Inductive out :=
| OTrig (block : Z) (ids : list bytes)   (* nil error, this DecryptionTrigger is on the channel *)
| ONil                                   (* nil error, nothing on the channel *)
| OErr (c : errclass)
| OPanic
| OPtr (v : Z)                           (* getTxPointer returned v *)
| OHandled                               (* HandleMessage returned no error *)
| OSent (slot txp : Z) (signers : list Z)  (* middleware passed the message on, with this extra *)
| ODropped                               (* middleware dropped the message (nil, nil) *)
| ODone.                                 (* environment operation *)

(* ---------- tx_pointer statements ----------------------------------------------------- *)

(* GetTxPointer *)
Fixpoint get_ptr (l : list prow) (e : Z) : option prow :=
  match l with
  | [] => None
  | r :: t => if p_eon r =? e then Some r else get_ptr t e
  end.

(* SetTxPointer: INSERT ... ON CONFLICT (eon) DO UPDATE SET age, value *)
Fixpoint set_ptr (l : list prow) (e v : Z) (a : option Z) : list prow :=
  match l with
  | [] => [mkP e v a]
  | r :: t => if p_eon r =? e then mkP e v a :: t else r :: set_ptr t e v a
  end.

(* IncrementTxPointerAge: UPDATE ... SET age = age + 1 WHERE eon = $1 (NULL + 1 = NULL; bigint
   overflow is an error of the statement; no row: pgx.ErrNoRows, which the caller ignores) *)
Definition age_overflows (l : list prow) (e : Z) : bool :=
  match get_ptr l e with
  | Some r => match p_age r with Some a => a =? max_i64 | None => false end
  | None => false
  end.
Definition inc_row (e : Z) (r : prow) : prow :=
  if p_eon r =? e then mkP (p_eon r) (p_value r) (option_map (fun a => a + 1) (p_age r)) else r.
Definition increment_age (l : list prow) (e : Z) : option (list prow) :=
  if age_overflows l e then None else Some (map (inc_row e) l).

(* ResetAllTxPointerAges: UPDATE tx_pointer SET age = NULL *)
Definition reset_ages (l : list prow) : list prow :=
  map (fun r => mkP (p_eon r) (p_value r) None) l.

(* ---------- transaction_submitted_event statements ------------------------------------ *)

Definition eon_rows (q : list qrow) (e : Z) : list qrow := filter (fun r => q_eon r =? e) q.

Definition max_index (rows : list qrow) : option Z :=
  fold_left (fun m r => match m with None => Some (q_index r) | Some x => Some (Z.max x (q_index r)) end)
            rows None.

(* GetTransactionSubmittedEventCount: cast(coalesce(max(index) + 1, 0) AS bigint) WHERE eon = $1;
   None = "bigint out of range" *)
Definition queue_length (q : list qrow) (e : Z) : option Z :=
  match max_index (eon_rows q e) with
  | None => Some 0
  | Some m => if m =? max_i64 then None else Some (m + 1)
  end.

Definition in_window (e p lim : Z) (r : qrow) : bool :=
  (q_eon r =? e) && (p <=? q_index r) && (q_index r <? p + lim).
Definition idx_leb (a b : qrow) : bool := q_index a <=? q_index b.

(* GetTransactionSubmittedEvents: WHERE eon = $1 AND index >= $2 AND index < $2 + $3
   ORDER BY index ASC LIMIT $3; None = "bigint out of range" in $2 + $3 *)
Definition select_events (q : list qrow) (e p lim : Z) : option (list qrow) :=
  if p + lim >? max_i64 then None
  else Some (ztake lim (isort_by idx_leb (filter (in_window e p lim) q))).

(* InsertTransactionSubmittedEvent: ON CONFLICT (index, eon) DO UPDATE *)
Fixpoint upsert_q (q : list qrow) (r : qrow) : list qrow :=
  match q with
  | [] => [r]
  | x :: t => if (q_index x =? q_index r) && (q_eon x =? q_eon r) then r :: t else x :: upsert_q t r
  end.

(* ---------- identity preimages -------------------------------------------------------- *)

Definition hexdigit (c : N) : option N :=
  if ((48 <=? c) && (c <=? 57))%N then Some (c - 48)%N
  else if ((97 <=? c) && (c <=? 102))%N then Some (c - 87)%N
  else if ((65 <=? c) && (c <=? 70))%N then Some (c - 55)%N
  else None.

Fixpoint hex_pairs (s : bytes) : option bytes :=
  match s with
  | [] => Some []
  | a :: b :: r =>
      match hexdigit a, hexdigit b, hex_pairs r with
      | Some x, Some y, Some t => Some ((x * 16 + y)%N :: t)
      | _, _, _ => None
      end
  | _ => None
  end.

(* common.IsHexAddress / common.HexToAddress: optional 0x or 0X, then exactly 40 hex digits *)
Definition strip_0x (s : bytes) : bytes :=
  match s with
  | 48%N :: c :: r => if ((c =? 120) || (c =? 88))%N then r else s
  | _ => s
  end.

(* shdb.DecodeAddress *)
Definition decode_address (s : bytes) : option bytes :=
  let h := strip_0x s in
  if Z.of_nat (length h) =? 40 then hex_pairs h else None.

(* transactionSubmittedEventToIdentityPreimage *)
Definition event_identity (r : qrow) : option bytes :=
  match decode_address (q_sender r) with
  | Some a => Some (q_prefix r ++ a)
  | None => None
  end.

Definition zeros (n : nat) : bytes := repeat 0%N n.

(* big endian, n bytes, of x mod 256^n *)
Fixpoint be_bytes (n : nat) (x : Z) : bytes :=
  match n with
  | O => []
  | S k => be_bytes k (x / 256) ++ [Z.to_N (x mod 256)]
  end.

(* makeSlotIdentityPreimage: 32 zero bytes, then the last 20 bytes of the 32-byte big endian
   slot number (a uint64), i.e. 12 zero bytes and 8 bytes *)
Definition slot_identity (slot : Z) : bytes := zeros 32 ++ zeros 12 ++ be_bytes 8 slot.

(* the loop of getDecryptionIdentityPreimages: [acc] is the uint64 gas counter, [taken] is
   len(identityPreimages) > 1; None = the sender of a taken event does not decode *)
Fixpoint sel_loop (gaslimit acc : Z) (taken : bool) (evs : list qrow) : option (list bytes) :=
  match evs with
  | [] => Some []
  | r :: t =>
      let acc' := u64 (acc + u64 (q_gas r)) in
      if (acc' >? gaslimit) && taken then Some []
      else match event_identity r with
           | None => None
           | Some i => match sel_loop gaslimit acc' true t with
                       | None => None
                       | Some is => Some (i :: is)
                       end
           end
  end.

Inductive ids_result :=
| IdsOk (ids : list bytes)
| IdsErr (c : errclass)
| IdsPanic.

(* EncryptedGasLimit/MinGasPerTransaction + 1 in uint64 *)
Definition row_limit (cfg : config) : Z := u64 (cfg_gas_limit cfg / cfg_min_gas cfg + 1).

(* getDecryptionIdentityPreimages before the final sort *)
Definition identities_unsorted (cfg : config) (q : list qrow) (slot e p : Z) : ids_result :=
  if cfg_min_gas cfg =? 0 then IdsPanic      (* integer divide by zero *)
  else
    let lim := row_limit cfg in
    if lim >? max_i32 then IdsErr EGasLimitTooBig
    else match select_events q e p lim with
         | None => IdsErr ESelect
         | Some evs =>
             match sel_loop (cfg_gas_limit cfg) 0 false evs with
             | None => IdsErr ESender
             | Some ids => IdsOk (slot_identity slot :: ids)
             end
         end.

(* sortIdentityPreimages: any sorting algorithm; the model uses insertion sort *)
Definition sort_ids (l : list bytes) : list bytes := isort_by bytes_leb l.

Definition identities (cfg : config) (q : list qrow) (slot e p : Z) : ids_result :=
  match identities_unsorted cfg q slot e p with
  | IdsOk l => IdsOk (sort_ids l)
  | r => r
  end.

(* ---------- getTxPointer -------------------------------------------------------------- *)

Definition outdated (maxage : Z) (r : prow) : bool :=
  match p_age r with
  | Some a => a >? maxage
  | None => true
  end.

(* returns the new tx_pointer table and the pointer to use (None = the count query failed) *)
Definition get_tx_pointer (maxage : Z) (q : list qrow) (ptrs : list prow) (e : Z)
  : list prow * option Z :=
  match get_ptr ptrs e with
  | None => (set_ptr ptrs e 0 (Some 0), Some 0)
  | Some r => if outdated maxage r then (ptrs, queue_length q e) else (ptrs, Some (p_value r))
  end.

(* ---------- current_decryption_trigger ------------------------------------------------ *)

Fixpoint get_trig (l : list trow) (e : Z) : option trow :=
  match l with
  | [] => None
  | r :: t => if t_eon r =? e then Some r else get_trig t e
  end.

Fixpoint put_trig (l : list trow) (n : trow) : list trow :=
  match l with
  | [] => [n]
  | r :: t => if t_eon r =? t_eon n then n :: t else r :: put_trig t n
  end.

(* SetCurrentDecryptionTrigger with the CHECK constraints eon, slot, tx_pointer >= 0 *)
Definition set_trigger (l : list trow) (e slot p : Z) (ids : bytes) : option (list trow) :=
  if (e <? 0) || (slot <? 0) || (p <? 0) then None else Some (put_trig l (mkT e slot p ids)).

(* ---------- eons, keyper sets --------------------------------------------------------- *)

(* GetEonForBlockNumber: WHERE activation_block_number <= $1
   ORDER BY activation_block_number DESC, height DESC LIMIT 1 *)
Definition eon_better (a b : erow) : bool :=
  (e_act b <? e_act a) || ((e_act b =? e_act a) && (e_height b <? e_height a)).
Definition eon_for_block (l : list erow) (b : Z) : option erow :=
  fold_left (fun best r =>
               if e_act r <=? b
               then match best with
                    | None => Some r
                    | Some x => if eon_better r x then Some r else best
                    end
               else best) l None.

(* GetKeyperSet: WHERE activation_block_number <= $1 ORDER BY activation_block_number DESC LIMIT 1 *)
Definition kset_for_block (l : list krow) (b : Z) : option krow :=
  fold_left (fun best r =>
               if k_act r <=? b
               then match best with
                    | None => Some r
                    | Some x => if k_act x <? k_act r then Some r else best
                    end
               else best) l None.

(* GetKeyperSetByKeyperConfigIndex *)
Fixpoint kset_by_index (l : list krow) (i : Z) : option krow :=
  match l with
  | [] => None
  | r :: t => if k_kci r =? i then Some r else kset_by_index t i
  end.

(* ---------- triggerDecryption --------------------------------------------------------- *)

Definition trigger_decryption (cfg : config) (st : state) (slot block ks : Z) : state * out :=
  match eon_for_block (st_eons st) block with
  | None => (st, OErr ENoEon)
  | Some er =>
      let e := e_kci er in
      let '(ptrs, r) := get_tx_pointer (to_i64 (cfg_max_age cfg)) (st_queue st) (st_ptrs st) e in
      let st1 := with_ptrs st ptrs in
      match r with
      | None => (st1, OErr EPointer)
      | Some p =>
          match identities cfg (st_queue st) slot ks p with
          | IdsPanic => (st1, OPanic)
          | IdsErr c => (st1, OErr c)
          | IdsOk ids =>
              match set_trigger (st_trigs st) e (to_i64 slot) p (concat ids) with
              | None => (st1, OErr ESetTrigger)
              | Some tr => (with_trigs st1 tr, OTrig (u64 block) ids)
              end
          end
      end
  end.

(* ---------- maybeTriggerDecryption (processNewSlot) ----------------------------------- *)

Inductive proposer := PRegistered | PNotRegistered | PError.

Definition new_slot (cfg : config) (st : state) (slot : Z) (pr : proposer) : state * out :=
  let seen := match st_latest st with Some l => slot <=? l | None => false end in
  if seen then (st, ONil)
  else
    let st := with_latest st (Some slot) in
    let '(sslot, sblock) := match st_synced st with Some x => x | None => (0, 0) end in
    if sslot >=? to_i64 slot then (st, OErr EAlreadyProcessed)
    else
      let next := sblock + 1 in
      match kset_for_block (st_ksets st) next with
      | None => (st, ONil)
      | Some ks =>
          if negb (k_member ks) then (st, ONil)
          else match pr with
               | PError => (st, OErr EProposer)
               | PNotRegistered => (st, ONil)
               | PRegistered =>
                   match increment_age (st_ptrs st) (k_kci ks) with
                   | None => (st, OErr EIncrementAge)
                   | Some ptrs => trigger_decryption cfg (with_ptrs st ptrs) slot next (k_kci ks)
                   end
               end
      end.

(* ---------- slot_decryption_signatures ------------------------------------------------ *)

Definition sig_conflict (n r : srow) : bool :=
  (s_eon r =? s_eon n) && (s_slot r =? s_slot n) && (s_kidx r =? s_kidx n).

(* InsertSlotDecryptionSignature: ON CONFLICT DO NOTHING; CHECK eon, slot, tx_pointer >= 0 *)
Definition insert_sig (l : list srow) (n : srow) : option (list srow) :=
  if (s_eon n <? 0) || (s_slot n <? 0) || (s_ptr n <? 0) then None
  else if existsb (sig_conflict n) l then Some l
  else Some (l ++ [n]).

Definition sig_matches (e slot p : Z) (ids : bytes) (r : srow) : bool :=
  (s_eon r =? e) && (s_slot r =? slot) && (s_ptr r =? p) && bytes_eqb (s_ids r) ids.

Definition kidx_leb (a b : srow) : bool := s_kidx a <=? s_kidx b.

(* GetSlotDecryptionSignatures: ... ORDER BY keyper_index ASC LIMIT $5 *)
Definition select_sigs (l : list srow) (e slot p : Z) (ids : bytes) (lim : Z) : list srow :=
  ztake lim (isort_by kidx_leb (filter (sig_matches e slot p ids) l)).

(* ---------- keys messages ------------------------------------------------------------- *)

(* int64(extra.TxPointer) + int64(len(keys.Keys)) - 1 in int64 *)
Definition new_pointer (txp nkeys : Z) : Z := to_i64 (to_i64 txp + nkeys - 1).

Inductive sig_loop_result := SigsOk | SigsErr | SigsPanic.

(* the loop over extra.SignerIndices of HandleMessage; [i] is the loop index, [nsigs] is
   len(extra.Signatures): extra.Signatures[i] panics when i >= nsigs *)
Fixpoint insert_signer_sigs (l : list srow) (e slot txp : Z) (ids : bytes) (signers : list Z)
         (i nsigs : Z) : list srow * sig_loop_result :=
  match signers with
  | [] => (l, SigsOk)
  | k :: t =>
      if i >=? nsigs then (l, SigsPanic)
      else match insert_sig l (mkS e slot (to_i64 k) txp ids) with
           | None => (l, SigsErr)
           | Some l' => insert_signer_sigs l' e slot txp ids t (i + 1) nsigs
           end
  end.

(* DecryptionKeysHandler.HandleMessage; [ids] are the identity preimages of keys.Keys *)
Definition keys_received (st : state) (eon slot txp : Z) (ids : list bytes) (signers : list Z)
           (nsigs : Z) : state * out :=
  let e := to_i64 eon in
  let st1 := with_ptrs st (set_ptr (st_ptrs st) e (new_pointer txp (Z.of_nat (length ids))) (Some 0)) in
  let '(sg, r) := insert_signer_sigs (st_sigs st) e (to_i64 slot) (to_i64 txp) (concat ids) signers 0 nsigs in
  let st2 := with_sigs st1 sg in
  match r with
  | SigsOk => (st2, OHandled)
  | SigsErr => (st2, OErr EInsertSignature)
  | SigsPanic => (st2, OPanic)
  end.

(* MessagingMiddleware.interceptDecryptionKeys (SendMessage of a DecryptionKeys message, or a
   DecryptionKeys message returned by a wrapped handler). [extra] = Some (slot, txp, signers)
   if the message already carries Gnosis extra data; [nkeys] = len(msg.Keys). *)
Definition keys_sent (st : state) (eon nkeys : Z) (extra : option (Z * Z * list Z)) : state * out :=
  let e := to_i64 eon in
  match extra with
  | Some (slot, txp, signers) =>
      (with_ptrs st (set_ptr (st_ptrs st) e (new_pointer txp nkeys) (Some 0)), OSent slot txp signers)
  | None =>
      match get_trig (st_trigs st) e with
      | None => (st, ODropped)
      | Some tr =>
          match kset_by_index (st_ksets st) e with
          | None => (st, OErr EKeyperSet)
          | Some ks =>
              if k_threshold ks <? 0 then (st, OErr ESignatures)   (* LIMIT must not be negative *)
              else
                let sg := select_sigs (st_sigs st) e (t_slot tr) (t_ptr tr) (t_ids tr) (k_threshold ks) in
                if Z.of_nat (length sg) <? k_threshold ks then (st, ODropped)
                else
                  (* uint64(trigger.TxPointer), then int64 again in advanceTxPointer *)
                  (with_ptrs st (set_ptr (st_ptrs st) e (new_pointer (u64 (t_ptr tr)) nkeys) (Some 0)),
                   OSent (u64 (t_slot tr)) (u64 (t_ptr tr)) (map (fun r => u64 (s_kidx r)) sg))
          end
      end
  end.

(* ---------- environment operations ---------------------------------------------------- *)

(* signatures of the keypers [kidxs] for the current decryption trigger of [e] arrive (what
   the key share handlers insert) *)
Fixpoint insert_trigger_sigs (l : list srow) (tr : trow) (kidxs : list Z) : list srow :=
  match kidxs with
  | [] => l
  | k :: t =>
      match insert_sig l (mkS (t_eon tr) (t_slot tr) k (t_ptr tr) (t_ids tr)) with
      | None => insert_trigger_sigs l tr t
      | Some l' => insert_trigger_sigs l' tr t
      end
  end.

Definition restart (st : state) : state :=
  with_latest (with_ptrs st (reset_ages (st_ptrs st))) None.

(* ---------- operations ---------------------------------------------------------------- *)

Inductive op :=
| OpTrigger (slot block ks : Z)        (* triggerDecryption(slot, block, keyper set index ks) *)
| OpGetPtr (eon maxage : Z)            (* getTxPointer(eon, maxage) *)
| OpSlot (slot : Z) (pr : proposer)    (* processNewSlot(slot) *)
| OpKeysRecv (eon slot txp : Z) (ids : list bytes) (signers : list Z) (nsigs : Z)
| OpKeysSent (eon nkeys : Z) (extra : option (Z * Z * list Z))
| OpRestart
| OpSync (rows : list qrow)            (* the sequencer syncer stores events *)
| OpSynced (slot block : Z)            (* ... and its sync position *)
| OpSigs (eon : Z) (kidxs : list Z).

Definition step (cfg : config) (st : state) (o : op) : state * out :=
  match o with
  | OpTrigger slot block ks => trigger_decryption cfg st slot block ks
  | OpGetPtr e maxage =>
      let '(ptrs, r) := get_tx_pointer maxage (st_queue st) (st_ptrs st) e in
      (with_ptrs st ptrs, match r with Some v => OPtr v | None => OErr EPointer end)
  | OpSlot slot pr => new_slot cfg st slot pr
  | OpKeysRecv eon slot txp ids signers nsigs => keys_received st eon slot txp ids signers nsigs
  | OpKeysSent eon nkeys extra => keys_sent st eon nkeys extra
  | OpRestart => (restart st, ODone)
  | OpSync rows => (with_queue st (fold_left upsert_q rows (st_queue st)), ODone)
  | OpSynced slot block => (with_synced st (Some (slot, block)), ODone)
  | OpSigs e kidxs =>
      match get_trig (st_trigs st) e with
      | None => (st, ODone)
      | Some tr => (with_sigs st (insert_trigger_sigs (st_sigs st) tr kidxs), ODone)
      end
  end.

(* state after a history, and the outputs of its operations *)
Fixpoint run (cfg : config) (st : state) (ops : list op) : state * list out :=
  match ops with
  | [] => (st, [])
  | o :: t =>
      let '(st1, x) := step cfg st o in
      let '(st2, xs) := run cfg st1 t in
      (st2, x :: xs)
  end.
