(* Model of the Shutter-service keyper's decryption trigger decision (property C02).

   Source (rolling-shutter/):
     keyperimpl/shutterservice/newblock.go          maybeTriggerDecryption .. sortIdentityPreimages
     keyperimpl/shutterservice/messagingmiddleware.go  updateEventFlag
     keyperimpl/shutterservice/triggerprocessor.go  FetchEvents (expiry test) / ProcessEvents
     keyper/epochkghandler/service.go               handleEvent (eon by block number)
     keyper/epochkghandler/sendkeyshare.go          ConstructDecryptionKeyShares
     keyper/database/extend.go                      GetKeyperIndex
   and the SQL statements they run (shutterservice.sql, keyper.sql), each given its relational
   meaning over lists of rows.  Definitions only; proofs are in Proofs/ServiceTrigger*.v.

   One call of maybeTriggerDecryption is modelled as atomic with respect to the database (the
   code runs its statements without a transaction; concurrent writers are outside the model). *)
From Coq Require Import List NArith ZArith Bool Lia.
From Verif Require Import Lib.Bytes Lib.Assoc Lib.Sorting.
Import ListNotations.
Open Scope Z_scope.

(* ------------------------------------------------------------------------------------- *)
(* Machine integers *)

Definition u64 (x : Z) : Z := x mod 2^64.
(* int64(x) of a uint64 / big.Int.Int64(): two's complement reinterpretation of the low 64 bits *)
Definition to_i64 (x : Z) : Z := let y := x mod 2^64 in if y <? 2^63 then y else y - 2^64.
(* int32(x) of an int64 *)
Definition to_i32 (x : Z) : Z := let y := x mod 2^32 in if y <? 2^31 then y else y - 2^32.

(* ------------------------------------------------------------------------------------- *)
(* Tables (only the columns the modelled paths read or that decide a constraint) *)

(* identity_registered_event, PRIMARY KEY (identity_prefix, sender) = ir_key *)
Record ir_row := mkIr { ir_key : bytes; ir_eon : Z; ir_identity : bytes; ir_timestamp : Z;
                        ir_decrypted : bool; ir_block : Z }.
(* event_trigger_registered_event, PRIMARY KEY (eon, identity) *)
Record et_row := mkEt { et_eon : Z; et_identity : bytes; et_expiration : Z;
                        et_decrypted : bool; et_block : Z }.
(* fired_triggers, PRIMARY KEY (eon, identity), FOREIGN KEY (eon, identity) -> event_trigger_registered_event
   ON DELETE CASCADE *)
Record ft_row := mkFt { ft_eon : Z; ft_identity : bytes; ft_block : Z }.
(* tendermint_batch_config, PRIMARY KEY keyper_config_index (integer) *)
Record cfg_row := mkCfg { cf_index : Z; cf_keypers : list bytes; cf_activation : Z }.
(* eons, PRIMARY KEY eon *)
Record eon_row := mkEon { eo_eon : Z; eo_height : Z; eo_activation : Z; eo_cfg : Z }.
(* dkg_result, PRIMARY KEY eon; dk_decodable: pure_result is a gob-encoded puredkg.Result *)
Record dkg_row := mkDkg { dk_eon : Z; dk_success : bool; dk_decodable : bool }.
(* decryption_key_share, PRIMARY KEY (eon, epoch_id, keyper_index) *)
Definition share_key := (Z * bytes * Z)%type.

Record database := mkDb {
  irs : list ir_row; ets : list et_row; fts : list ft_row;
  cfgs : list cfg_row; eons : list eon_row; dkgs : list dkg_row; shares : list share_key }.

Definition empty_db : database := mkDb [] [] [] [] [] [] [].

Definition set_irs (d : database) x := mkDb x (ets d) (fts d) (cfgs d) (eons d) (dkgs d) (shares d).
Definition set_ets (d : database) x := mkDb (irs d) x (fts d) (cfgs d) (eons d) (dkgs d) (shares d).
Definition set_fts (d : database) x := mkDb (irs d) (ets d) x (cfgs d) (eons d) (dkgs d) (shares d).
Definition set_cfgs (d : database) x := mkDb (irs d) (ets d) (fts d) x (eons d) (dkgs d) (shares d).
Definition set_eons (d : database) x := mkDb (irs d) (ets d) (fts d) (cfgs d) x (dkgs d) (shares d).
Definition set_dkgs (d : database) x := mkDb (irs d) (ets d) (fts d) (cfgs d) (eons d) x (shares d).
Definition set_shares (d : database) x := mkDb (irs d) (ets d) (fts d) (cfgs d) (eons d) (dkgs d) x.

(* Static configuration of the keyper under test. *)
Record config := mkConfig {
  me : bytes;                (* shdb.EncodeAddress(config.GetAddress()) *)
  events_enabled : bool;     (* Config.EventBasedTriggersEnabled() *)
  max_keys : Z }.            (* KeyShareHandler.MaxNumKeysPerMessage (uint64) *)

(* ------------------------------------------------------------------------------------- *)
(* Database edits standing for the other services *)

Definition et_match (eon : Z) (id : bytes) (e : et_row) : bool :=
  (et_eon e =? eon) && bytes_eqb (et_identity e) id.
Definition ft_match (eon : Z) (id : bytes) (f : ft_row) : bool :=
  (ft_eon f =? eon) && bytes_eqb (ft_identity f) id.

(* InsertIdentityRegisteredEvent: CHECK (block_number >= 0), CHECK (eon >= 0);
   ON CONFLICT (identity_prefix, sender) DO UPDATE SET block_number, block_hash, tx_index,
   log_index, sender, timestamp, identity  (eon and decrypted keep their values). *)
Fixpoint ir_upsert (l : list ir_row) (key : bytes) (eon : Z) (id : bytes) (ts blk : Z) : list ir_row :=
  match l with
  | [] => [mkIr key eon id ts false blk]
  | r :: rest =>
      if bytes_eqb (ir_key r) key
      then mkIr (ir_key r) (ir_eon r) id ts (ir_decrypted r) blk :: rest
      else r :: ir_upsert rest key eon id ts blk
  end.

Definition register_time (d : database) (key : bytes) (eon : Z) (id : bytes) (ts blk : Z) : option database :=
  if (eon <? 0) || (blk <? 0) then None
  else Some (set_irs d (ir_upsert (irs d) key eon id ts blk)).

(* InsertEventTriggerRegisteredEvent: CHECKs on block_number, eon, expiration_block_number;
   ON CONFLICT (eon, identity) DO UPDATE SET block_number, ..., definition,
   expiration_block_number, identity  (decrypted keeps its value). *)
Fixpoint et_upsert (l : list et_row) (eon : Z) (id : bytes) (expi blk : Z) : list et_row :=
  match l with
  | [] => [mkEt eon id expi false blk]
  | r :: rest =>
      if et_match eon id r
      then mkEt (et_eon r) id expi (et_decrypted r) blk :: rest
      else r :: et_upsert rest eon id expi blk
  end.

Definition register_event (d : database) (eon : Z) (id : bytes) (expi blk : Z) : option database :=
  if (eon <? 0) || (blk <? 0) || (expi <? 0) then None
  else Some (set_ets d (et_upsert (ets d) eon id expi blk)).

(* InsertFiredTrigger: CHECK (block_number >= 0); the foreign key demands a registered event
   (eon, identity); ON CONFLICT (eon, identity) DO NOTHING. *)
Definition insert_fired (d : database) (eon : Z) (id : bytes) (blk : Z) : option database :=
  if blk <? 0 then None
  else if existsb (ft_match eon id) (fts d) then Some d
  else if existsb (et_match eon id) (ets d) then Some (set_fts d (fts d ++ [mkFt eon id blk]))
  else None.

(* DeleteFiredTriggersFromBlockNumber *)
Definition unfire (d : database) (from : Z) : database :=
  set_fts d (filter (fun f => ft_block f <? from) (fts d)).

(* DeleteIdentityRegisteredEventsFromBlockNumber *)
Definition rollback_time (d : database) (from : Z) : database :=
  set_irs d (filter (fun r => ir_block r <? from) (irs d)).

(* DeleteEventTriggerRegisteredEventsFromBlockNumber; fired rows of a deleted event go too
   (ON DELETE CASCADE). *)
Definition rollback_event (d : database) (from : Z) : database :=
  let keep := filter (fun e => et_block e <? from) (ets d) in
  mkDb (irs d) keep
       (filter (fun f => existsb (et_match (ft_eon f) (ft_identity f)) keep) (fts d))
       (cfgs d) (eons d) (dkgs d) (shares d).

(* InsertBatchConfig (keyper_config_index is an int32 parameter) *)
Definition add_config (d : database) (idx : Z) (keypers : list bytes) (act : Z) : option database :=
  if existsb (fun c => cf_index c =? idx) (cfgs d) then None
  else Some (set_cfgs d (cfgs d ++ [mkCfg idx keypers act])).

(* InsertEon *)
Definition eon_started (d : database) (eon height act cfg : Z) : option database :=
  if existsb (fun e => eo_eon e =? eon) (eons d) then None
  else Some (set_eons d (eons d ++ [mkEon eon height act cfg])).

(* InsertDKGResult *)
Definition dkg_result (d : database) (eon : Z) (success decodable : bool) : option database :=
  if existsb (fun k => dk_eon k =? eon) (dkgs d) then None
  else Some (set_dkgs d (dkgs d ++ [mkDkg eon success decodable])).

(* updateEventFlag: UpdateTimeBasedDecryptedFlags then UpdateEventBasedDecryptedFlags, every
   identity of the keys message paired with the message's eon. *)
Definition keys_released (d : database) (eon : Z) (ids : list bytes) : database :=
  let hit e i := existsb (fun x => bytes_eqb x i) ids && (e =? eon) in
  mkDb (map (fun r => if hit (ir_eon r) (ir_identity r)
                      then mkIr (ir_key r) (ir_eon r) (ir_identity r) (ir_timestamp r) true (ir_block r)
                      else r) (irs d))
       (map (fun r => if hit (et_eon r) (et_identity r)
                      then mkEt (et_eon r) (et_identity r) (et_expiration r) true (et_block r)
                      else r) (ets d))
       (fts d) (cfgs d) (eons d) (dkgs d) (shares d).

(* TriggerProcessor.FetchEvents(start, end) followed by ProcessEvents in one transaction.
   [logs] is what the execution node holds: (eon, identity, block) stands for a log at block
   [block] that matches the definition of the trigger registered as (eon, identity).
     - GetActiveEventTriggerRegisteredEvents(start): expiration >= start, not decrypted, no
       fired row;
     - FilterLogs with FromBlock = start, ToBlock = end;
     - a log later than the trigger's expiration block is skipped;
     - InsertFiredTrigger ... ON CONFLICT DO NOTHING for each remaining (trigger, log). *)
Definition log := (Z * bytes * Z)%type.

Definition active_triggers (d : database) (start : Z) : list et_row :=
  filter (fun e => (start <=? et_expiration e) && negb (et_decrypted e)
                   && negb (existsb (ft_match (et_eon e) (et_identity e)) (fts d))) (ets d).

Definition log_hits (start end_ : Z) (e : et_row) (l : log) : bool :=
  let '(leon, lid, lblk) := l in
  et_match leon lid e && (start <=? lblk) && (lblk <=? end_) && (lblk <=? et_expiration e).

Definition fetch_events (d : database) (start end_ : Z) (logs : list log) : list ft_row :=
  flat_map (fun e => map (fun l => mkFt (et_eon e) (et_identity e) (snd l))
                         (filter (log_hits start end_ e) logs))
           (active_triggers d start).

Definition process_events (d : database) (evs : list ft_row) : database :=
  fold_left (fun d f => match insert_fired d (ft_eon f) (ft_identity f) (ft_block f) with
                        | Some d' => d' | None => d end) evs d.

(* ------------------------------------------------------------------------------------- *)
(* Queries of keyper.sql *)

(* GetLatestStartedEonByKeyperConfigIndex: WHERE keyper_config_index = $1 ORDER BY eon DESC LIMIT 1 *)
Fixpoint latest_eon_from (best : option eon_row) (l : list eon_row) (idx : Z) : option eon_row :=
  match l with
  | [] => best
  | e :: rest =>
      if eo_cfg e =? idx
      then match best with
           | Some b => if eo_eon b <? eo_eon e then latest_eon_from (Some e) rest idx
                       else latest_eon_from best rest idx
           | None => latest_eon_from (Some e) rest idx
           end
      else latest_eon_from best rest idx
  end.
Definition latest_eon (d : database) (idx : Z) : option eon_row := latest_eon_from None (eons d) idx.

(* GetDKGResult *)
Definition get_dkg (d : database) (eon : Z) : option dkg_row :=
  find (fun k => dk_eon k =? eon) (dkgs d).

(* GetDKGResultForKeyperConfigIndex: WHERE eon = (SELECT max(eon) FROM eons WHERE keyper_config_index = $1) *)
Definition dkg_for_config (d : database) (idx : Z) : option dkg_row :=
  match latest_eon d idx with
  | Some e => get_dkg d (eo_eon e)
  | None => None
  end.

(* GetEonForBlockNumber: WHERE activation_block_number <= $1
   ORDER BY activation_block_number DESC, height DESC LIMIT 1.  Among rows that tie on both
   columns Postgres may return any; the model takes the first in table order. *)
Fixpoint eon_for_block_from (best : option eon_row) (l : list eon_row) (blk : Z) : option eon_row :=
  match l with
  | [] => best
  | e :: rest =>
      if eo_activation e <=? blk
      then match best with
           | Some b =>
               if (eo_activation b <? eo_activation e)
                  || ((eo_activation b =? eo_activation e) && (eo_height b <? eo_height e))
               then eon_for_block_from (Some e) rest blk
               else eon_for_block_from best rest blk
           | None => eon_for_block_from (Some e) rest blk
           end
      else eon_for_block_from best rest blk
  end.
Definition eon_for_block (d : database) (blk : Z) : option eon_row := eon_for_block_from None (eons d) blk.

(* database.GetKeyperIndex: GetBatchConfig(int32(keyperConfigIndex)), then the position of the
   address in the keypers array. *)
Inductive keyper_index := KINoConfig | KINotMember | KIMember (i : Z).

Fixpoint index_of (l : list bytes) (a : bytes) (i : Z) : option Z :=
  match l with
  | [] => None
  | x :: rest => if bytes_eqb x a then Some i else index_of rest a (i + 1)
  end.

Definition get_keyper_index (d : database) (idx : Z) (addr : bytes) : keyper_index :=
  match find (fun c => cf_index c =? to_i32 idx) (cfgs d) with
  | None => KINoConfig
  | Some c => match index_of (cf_keypers c) addr 0 with
              | Some i => KIMember i
              | None => KINotMember
              end
  end.

(* ------------------------------------------------------------------------------------- *)
(* newblock.go *)

(* resolveDecryptableEon (database errors other than "no rows" are outside the model) *)
Definition resolve_decryptable_eon (c : config) (d : database) (idx : Z) : option eon_row :=
  match latest_eon d idx with
  | None => None
  | Some e =>
      match get_keyper_index d idx (me c) with
      | KIMember _ =>
          match dkg_for_config d idx with
          | Some k => if dk_success k then Some e else None
          | None => None
          end
      | _ => None
      end
  end.

(* shouldTriggerDecryption *)
Definition should_trigger (c : config) (d : database) (r : ir_row) (number time : Z) : bool :=
  match resolve_decryptable_eon c d (ir_eon r) with
  | None => false
  | Some e =>
      if eo_activation e >? to_i64 number then false
      else if ir_timestamp r >=? to_i64 time then false
      else true
  end.

(* GetNotDecryptedIdentityRegisteredEvents: timestamp >= $1 AND timestamp <= $2 AND decrypted =
   false ORDER BY timestamp ASC (ties in table order) *)
Fixpoint ts_insert (x : ir_row) (l : list ir_row) : list ir_row :=
  match l with
  | [] => [x]
  | y :: rest => if ir_timestamp y <? ir_timestamp x then y :: ts_insert x rest else x :: l
  end.
Fixpoint ts_sort (l : list ir_row) : list ir_row :=
  match l with
  | [] => []
  | x :: rest => ts_insert x (ts_sort rest)
  end.

Definition window_rows (d : database) (lo hi : Z) : list ir_row :=
  ts_sort (filter (fun r => (lo <=? ir_timestamp r) && (ir_timestamp r <=? hi) && negb (ir_decrypted r))
                  (irs d)).

(* sortIdentityPreimages: bytes.Compare order.  Equal byte strings are indistinguishable, so the
   unstable sort.Slice has one possible result. *)
Definition sort_ids (l : list bytes) : list bytes :=
  map fst (ksort (map (fun b => (b, tt)) l)).

(* A Go map keyed by int64 with first-insertion order kept (the enumeration order is a
   separate argument wherever the code ranges over the map). *)
Fixpoint zget {V : Type} (m : list (Z * V)) (k : Z) : option V :=
  match m with
  | [] => None
  | (k', v) :: rest => if k' =? k then Some v else zget rest k
  end.

(* identityPreimages[eon] = append(identityPreimages[eon], id); lastEonBlock[eon] set once *)
Fixpoint group_add (m : list (Z * (Z * list bytes))) (k act : Z) (id : bytes) : list (Z * (Z * list bytes)) :=
  match m with
  | [] => [(k, (act, [id]))]
  | (k', (a, ids)) :: rest =>
      if k' =? k then (k', (a, ids ++ [id])) :: rest else (k', (a, ids)) :: group_add rest k act id
  end.

Record trigger := mkTrig { tg_cfg : Z;           (* keyper set index the group belongs to (not sent) *)
                           tg_block : Z;         (* DecryptionTrigger.BlockNumber *)
                           tg_ids : list bytes }. (* DecryptionTrigger.IdentityPreimages *)

(* createTriggersFromIdentityRegisteredEvents; [enum] is the order in which
   `for eon, preImages := range identityPreimages` visits the keys. *)
Definition time_groups (c : config) (d : database) (rows : list ir_row) : list (Z * (Z * list bytes)) :=
  fold_left (fun m r => match resolve_decryptable_eon c d (ir_eon r) with
                        | None => m
                        | Some e => group_add m (ir_eon r) (eo_activation e) (ir_identity r)
                        end) rows [].

Definition emit_time (groups : list (Z * (Z * list bytes))) (enum : list Z) : list trigger :=
  flat_map (fun k => match zget groups k with
                     | Some (act, ids) => [mkTrig k (u64 act) (sort_ids ids)]
                     | None => []
                     end) enum.

(* prepareTimeBasedTriggers.  Returns the new volatile latestTriggeredTime and the triggers.
   [time] is Header.Time (uint64), [number] is Header.Number. *)
Definition prepare_time_based (c : config) (d : database) (latest : option Z) (number time : Z)
           (enum : list Z -> list Z) : option Z * list trigger :=
  let early := match latest with Some l => time <=? l | None => false end in
  if early then (latest, [])
  else
    let last := match latest with Some l => to_i64 l | None => 0 end in
    let rows := window_rows d last (to_i64 time) in
    let chosen := filter (fun r => should_trigger c d r number time) rows in
    let groups := time_groups c d chosen in
    (Some time, emit_time groups (enum (map fst groups))).

(* GetUndecryptedFiredTriggers: fired rows joined with their registered event, unless a
   registered event with that key is marked decrypted *)
Definition undecrypted_fired (d : database) : list (Z * bytes) :=
  flat_map (fun f =>
              if existsb (fun e => et_match (ft_eon f) (ft_identity f) e && et_decrypted e) (ets d)
              then []
              else map (fun e => (et_eon e, et_identity e))
                       (filter (et_match (ft_eon f) (ft_identity f)) (ets d)))
           (fts d).

Fixpoint ev_group_add (m : list (Z * list bytes)) (k : Z) (id : bytes) : list (Z * list bytes) :=
  match m with
  | [] => [(k, [id])]
  | (k', ids) :: rest => if k' =? k then (k', ids ++ [id]) :: rest else (k', ids) :: ev_group_add rest k id
  end.

Definition event_groups (rows : list (Z * bytes)) : list (Z * list bytes) :=
  fold_left (fun m r => ev_group_add m (fst r) (snd r)) rows [].

(* prepareEventBasedTriggers; [enum] is the order of `for eon, firedTriggers := range firedTriggersByEon` *)
Definition prepare_event_based (c : config) (d : database) (enum : list Z -> list Z) : list trigger :=
  let groups := event_groups (undecrypted_fired d) in
  flat_map (fun k => match zget groups k with
                     | Some ids =>
                         match ids with
                         | [] => []
                         | _ => match resolve_decryptable_eon c d k with
                                | Some e => [mkTrig k (u64 (eo_activation e)) (sort_ids ids)]
                                | None => []
                                end
                         end
                     | None => []
                     end) (enum (map fst groups)).

(* maybeTriggerDecryption: the triggers are sent on the channel in this order *)
Definition new_block (c : config) (d : database) (latest : option Z) (number time : Z)
           (enum_t enum_e : list Z -> list Z) : option Z * list trigger :=
  let '(latest', tt_) := prepare_time_based c d latest number (u64 time) enum_t in
  let te := if events_enabled c then prepare_event_based c d enum_e else [] in
  (latest', tt_ ++ te).

(* ------------------------------------------------------------------------------------- *)
(* epochkghandler: handleEvent / ConstructDecryptionKeyShares *)

Inductive share_error :=
| EBlockRange      (* Uint64ToInt64Safe(trigger.BlockNumber) *)
| ENoEon           (* GetEonForBlockNumber: no rows *)
| EEmpty           (* "cannot generate empty decryption key share" *)
| ETooMany         (* "too many decryption key shares for message" *)
| ENoConfig        (* GetKeyperIndex: batch config missing *)
| ENotKeyper       (* ErrNotAKeyper *)
| ENegativeIndex   (* Int64ToUint64Safe(eon.KeyperConfigIndex) *)
| ESharesExist     (* ErrSharesAlreadySent *)
| ENoDkgResult     (* GetDKGResult: no rows *)
| EDkgFailed       (* ErrEonDKGFailed *)
| EDecode.         (* shdb.DecodePureDKGResult *)

(* p2pmsg.DecryptionKeyShares: Eon (= keyper config index), KeyperIndex, identity of each share *)
Record shares_msg := mkMsg { sm_eon : Z; sm_keyper_index : Z; sm_ids : list bytes }.

Inductive share_result := ShErr (e : share_error) | ShOk (m : shares_msg).

Definition share_exists (d : database) (eon : Z) (id : bytes) (ki : Z) : bool :=
  existsb (fun k => let '(e, i, x) := k in (e =? eon) && bytes_eqb i id && (x =? ki)) (shares d).

(* InsertDecryptionKeySharesMsg: ON CONFLICT DO NOTHING per share *)
Definition insert_shares (d : database) (eon ki : Z) (ids : list bytes) : database :=
  fold_left (fun d id => if share_exists d eon id ki then d
                         else set_shares d (shares d ++ [(eon, id, ki)])) ids d.

Definition construct_shares (c : config) (d : database) (e : eon_row) (ids : list bytes)
  : share_result * database :=
  match ids with
  | [] => (ShErr EEmpty, d)
  | _ =>
      if Z.of_nat (length ids) >? to_i64 (max_keys c) then (ShErr ETooMany, d)
      else match get_keyper_index d (eo_cfg e) (me c) with
           | KINoConfig => (ShErr ENoConfig, d)
           | KINotMember => (ShErr ENotKeyper, d)
           | KIMember ki =>
               if eo_cfg e <? 0 then (ShErr ENegativeIndex, d)
               else if forallb (fun id => share_exists d (eo_cfg e) id ki) ids then (ShErr ESharesExist, d)
               else match get_dkg d (eo_eon e) with
                    | None => (ShErr ENoDkgResult, d)
                    | Some k =>
                        if negb (dk_success k) then (ShErr EDkgFailed, d)
                        else if negb (dk_decodable k) then (ShErr EDecode, d)
                        else (ShOk (mkMsg (eo_cfg e) ki ids), insert_shares d (eo_cfg e) ki ids)
                    end
           end
  end.

(* handleEvent up to the point where the message is handed to Messaging.SendMessage *)
Definition handle_trigger (c : config) (d : database) (blk : Z) (ids : list bytes)
  : share_result * database :=
  if u64 blk >? 2^63 - 1 then (ShErr EBlockRange, d)
  else match eon_for_block d (u64 blk) with
       | None => (ShErr ENoEon, d)
       | Some e => construct_shares c d e ids
       end.

(* ------------------------------------------------------------------------------------- *)
(* The state machine *)

Record state := mkState { st_db : database; st_latest : option Z }.
Definition init : state := mkState empty_db None.

Inductive op :=
| OpNewBlock (number time : Z) (enum_t enum_e : list Z -> list Z)
| OpRestart
| OpRegisterTime (key : bytes) (eon : Z) (identity : bytes) (timestamp block : Z)
| OpRegisterEvent (eon : Z) (identity : bytes) (expiration block : Z)
| OpFire (eon : Z) (identity : bytes) (block : Z)
| OpFetch (start end_ : Z) (logs : list log)
| OpUnfire (from : Z)
| OpRollbackTime (from : Z)
| OpRollbackEvent (from : Z)
| OpAddConfig (index : Z) (keypers : list bytes) (activation : Z)
| OpEonStarted (eon height activation cfg : Z)
| OpDKGResult (eon : Z) (success decodable : bool)
| OpKeysReleased (eon : Z) (ids : list bytes)
| OpHandleTrigger (block : Z) (ids : list bytes).

Inductive out :=
| OutNone
| OutDb (accepted : bool)
| OutTriggers (ts : list trigger)
| OutShares (r : share_result).

Definition db_edit (s : state) (r : option database) : state * out :=
  match r with
  | Some d => (mkState d (st_latest s), OutDb true)
  | None => (s, OutDb false)
  end.

Definition step (c : config) (s : state) (o : op) : state * out :=
  let d := st_db s in
  match o with
  | OpNewBlock n t et ee =>
      let '(l, ts) := new_block c d (st_latest s) n t et ee in (mkState d l, OutTriggers ts)
  | OpRestart => (mkState d None, OutNone)
  | OpRegisterTime k e i t b => db_edit s (register_time d k e i t b)
  | OpRegisterEvent e i x b => db_edit s (register_event d e i x b)
  | OpFire e i b => db_edit s (insert_fired d e i b)
  | OpFetch st en logs => db_edit s (Some (process_events d (fetch_events d st en logs)))
  | OpUnfire f => db_edit s (Some (unfire d f))
  | OpRollbackTime f => db_edit s (Some (rollback_time d f))
  | OpRollbackEvent f => db_edit s (Some (rollback_event d f))
  | OpAddConfig i ks a => db_edit s (add_config d i ks a)
  | OpEonStarted e h a cf => db_edit s (eon_started d e h a cf)
  | OpDKGResult e ok dec => db_edit s (dkg_result d e ok dec)
  | OpKeysReleased e ids => db_edit s (Some (keys_released d e ids))
  | OpHandleTrigger b ids =>
      let '(r, d') := handle_trigger c d b ids in (mkState d' (st_latest s), OutShares r)
  end.

Definition run (c : config) (ops : list op) : state :=
  fold_left (fun s o => fst (step c s o)) ops init.
