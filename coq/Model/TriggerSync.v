(* Model of the event-trigger part of the multi-event syncer (C16), on top of Model/Syncer.v:
     keyperimpl/shutterservice/multieventsyncer.go         Sync, syncRange, rollback
     keyperimpl/shutterservice/eventtriggerregisteredprocessor.go
     keyperimpl/shutterservice/triggerprocessor.go          FetchEvents, ProcessEvents, RollbackEvents
     SQL: GetActiveEventTriggerRegisteredEvents, InsertFiredTrigger, DeleteFiredTriggersFromBlockNumber,
          DeleteEventTriggerRegisteredEventsFromBlockNumber (fired_triggers: ON DELETE CASCADE),
          UpdateEventBasedDecryptedFlags
   Definitions only.  Fault streams as in Model/Syncer.v (one entry per RPC call, one per database operation).

   A block carries items in log order: registrations (EventTriggerRegistered events of the
   trigger registry) and plain logs (what triggers are matched against).  The matcher is a
   parameter: [match_log definition log] stands for "the log passes the filter query built by
   ToFilterQuery and Match returns (true, nil)" (C17 models it).  The registration table and the
   status row evolve exactly as the generic syncer's state over items, so [Syncer.state],
   [commit_range], [rollback_to], [num_reorged], [get_sync_ranges] and the views of
   Model/Syncer.v are reused.  The column [decrypted] is kept as the set of decrypted keys. *)
From Coq Require Import List NArith ZArith Bool Lia.
From Verif Require Import Lib.Bytes Model.Syncer.
Import ListNotations.
Open Scope Z_scope.

Section TriggerSync.
  Variable LogT : Type.
  Variable match_log : bytes -> LogT -> bool.

  Inductive titem := IReg (u : uev) | ILog (l : LogT).

  Definition t_key (it : titem) : ukey :=
    match it with IReg u => trigger_key u | ILog _ => KSequencer 0 0 (* never stored *) end.
  Definition t_admissible (it : titem) : bool :=
    match it with IReg u => trigger_admissible u | ILog _ => false end.
  Definition t_merge (old new : pev titem) : pev titem := new.   (* decrypted is not touched *)

  (* fired_triggers: PRIMARY KEY (eon, identity); position of the log that fired it *)
  Record fired := mkfired { f_key : ukey; f_block : Z; f_bhash : bytes; f_tx : Z; f_log : Z }.

  Record tstate := mktstate {
    ts_core : state titem;          (* multi_event_sync_status, event_trigger_registered_event *)
    ts_decrypted : list ukey;       (* keys of the registration rows with decrypted = true *)
    ts_fired : list fired
  }.

  Definition tinit : tstate := mktstate init_state [] [].

  Definition has_key (k : ukey) (l : list ukey) : bool := existsb (ukey_eqb k) l.
  Definition reg_keys (rows : list (pev titem)) : list ukey := map (fun p => t_key (pe_ev p)) rows.

  (* GetActiveEventTriggerRegisteredEvents(start): not expired at start, not decrypted, not fired *)
  Definition is_active (st : tstate) (s : Z) (p : pev titem) : bool :=
    match pe_ev p with
    | IReg u => (s <=? ev_expiry u) && negb (has_key (trigger_key u) (ts_decrypted st))
                && negb (has_key (trigger_key u) (map f_key (ts_fired st)))
    | ILog _ => false
    end.
  Definition active (st : tstate) (s : Z) : list (pev titem) := filter (is_active st s) (st_rows (ts_core st)).

  (* FetchEvents of the trigger processor, per active trigger: the logs of [s, e] that pass the
     filter, are not after the expiry block, and match *)
  Definition log_matches (u : uev) (p : pev titem) : bool :=
    match pe_ev p with
    | ILog l => (pe_block p <=? ev_expiry u) && match_log (ev_definition u) l
    | IReg _ => false
    end.
  Definition fire_of (u : uev) (l : pev titem) : fired :=
    mkfired (trigger_key u) (pe_block l) (pe_bhash l) (pe_tx l) (pe_log l).
  Definition fires_of_trigger (logs : list (pev titem)) (p : pev titem) : list fired :=
    match pe_ev p with
    | IReg u => map (fire_of u) (filter (log_matches u) logs)
    | ILog _ => []
    end.
  Definition fetch_fires (st : tstate) (nd : node titem) (s e : Z) : list fired :=
    flat_map (fires_of_trigger (n_logs nd s e)) (active st s).

  (* InsertFiredTrigger: ON CONFLICT (eon, identity) DO NOTHING; the foreign key to the
     registration row is checked for a row that is actually inserted *)
  Definition insert_fired (regs : list (pev titem)) (fi : list fired) (f : fired) : option (list fired) :=
    if has_key (f_key f) (map f_key fi) then Some fi
    else if has_key (f_key f) (reg_keys regs) then Some (fi ++ [f])
    else None.
  Definition insert_all (regs : list (pev titem)) (fi : list fired) (fs : list fired) : option (list fired) :=
    fold_left (fun acc f => match acc with Some x => insert_fired regs x f | None => None end) fs (Some fi).

  (* syncRange: every processor fetches (from the database as it is before the range is
     stored), then one transaction runs ProcessEvents of every processor in map order and sets
     the status.  reg_first: the registration processor comes first in that iteration. *)
  Definition commit_trange (reg_first : bool) (nd : node titem) (st : tstate) (s e : Z) (h : bytes) : option tstate :=
    let core' := commit_range t_key ukey_eqb t_admissible t_merge nd (ts_core st) s e h in
    let fires := fetch_fires st nd s e in
    let regs_seen := if reg_first then st_rows core' else st_rows (ts_core st) in
    match insert_all regs_seen (ts_fired st) fires with
    | Some fi => Some (mktstate core' (ts_decrypted st) fi)
    | None => None                        (* foreign-key violation: the transaction fails *)
    end.

  (* rollback: RollbackEvents of every processor in map order, status := (to, empty hash).
     Deleting a registration row deletes its fired row (ON DELETE CASCADE) and its flag. *)
  Definition trollback (reg_first : bool) (st : tstate) (to : Z) : tstate :=
    let core' := rollback_to (ts_core st) to in
    let keep (k : ukey) := has_key k (reg_keys (st_rows core')) in
    let cascade := filter (fun f : fired => keep (f_key f)) in
    let by_block := filter (fun f : fired => f_block f <? to + 1) in
    mktstate core' (filter keep (ts_decrypted st))
             (if reg_first then by_block (cascade (ts_fired st)) else cascade (by_block (ts_fired st))).

  Definition popb (os : list bool) : bool * list bool :=
    match os with [] => (false, []) | o :: r => (o, r) end.

  Fixpoint pop_n (n : nat) (fs : list fault) : bool * list fault :=   (* does any of the next n calls fail? *)
    match n with
    | O => (false, fs)
    | S n' => let '(f, fs1) := pop fs in let '(bad, fs2) := pop_n n' fs1 in (is_fail f || bad, fs2)
    end.

  (* syncRange with failures.  RPC calls of one range: HeaderByNumber(e), then - in the iteration
     order of the processor map, which does not matter because any failure abandons the range before
     anything is stored - FilterLogs of the registration processor and one FilterLogs per active
     trigger.  Database operations of one range: GetActiveEventTriggerRegisteredEvents, then the
     transaction. *)
  Fixpoint trange_loop (nd : node titem) (st : tstate) (rs : list (Z * Z)) (orders : list bool)
           (rpc db : list fault) : tstate * result * bool :=
    match rs with
    | [] => (st, Ok, false)
    | (s, e) :: rest =>
        let '(fh, rpc) := pop rpc in
        if is_fail fh then (st, Err, false) else
        match n_hash nd e with
        | None => (st, Err, false)
        | Some h =>
            let '(fr, rpc) := pop rpc in                      (* registration processor: FilterLogs *)
            let '(fa, db) := pop db in                        (* trigger processor: the active set *)
            let '(ft, rpc) := pop_n (length (active st s)) rpc in  (*   and its FilterLogs calls *)
            if is_fail fr || is_fail fa || ft then (st, Err, false) else
            let '(o, orders) := popb orders in
            match commit_trange o nd st s e h with
            | None => (st, Err, false)
            | Some st' =>
                let '(fc, db) := pop db in                    (* the BeginFunc transaction *)
                match fc with
                | NoFault => let '(st2, r, _) := trange_loop nd st' rest orders rpc db in (st2, r, true)
                | Fail => (st, Err, false)
                | FailApplied => (st', Err, true)
                end
            end
        end
    end.

  (* the position from which a Sync on node nd continues, and whether it first rolls back *)
  Definition reorg_target (fl : flavour) (nd : node titem) (st : tstate) : option Z :=
    match st_status (ts_core st) with
    | None => None
    | Some (k, h) => let n := num_reorged fl k h nd in if n <=? 0 then None else Some (k - n)
    end.

  (* Sync(ctx, header); the last component says whether the database was written *)
  Definition tsync (fl : flavour) (nd : node titem) (st : tstate) (orders : list bool)
             (rpc db : list fault) : tstate * result * bool :=
    let '(f1, db) := pop db in                                (* handlePotentialReorg: getSyncStatus *)
    if is_fail f1 then (st, Err, false) else
    let '(st1, orders, db, failed, wrote1) :=
      match reorg_target fl nd st with
      | None => (st, orders, db, false, false)
      | Some to =>
          let '(f2, db) := pop db in                          (* rollback: getSyncStatus *)
          if is_fail f2 then (st, orders, db, true, false) else
          let '(o, orders) := popb orders in
          let '(f3, db) := pop db in                          (* rollback: the transaction *)
          match f3 with
          | NoFault => (trollback o st to, orders, db, false, true)
          | Fail => (st, orders, db, true, false)
          | FailApplied => (trollback o st to, orders, db, true, true)
          end
      end in
    if failed then (st1, Err, wrote1) else
    let '(f4, db) := pop db in                                (* getSyncedUntil *)
    if is_fail f4 then (st1, Err, wrote1) else
    let start := next_start fl (ts_core st1) in
    let e := n_number nd in
    if start >? e then (st1, Ok, wrote1) else
    match get_sync_ranges start e (fl_range fl) with
    | RangesOutOfFuel => (st1, OutOfFuel, wrote1)
    | RangesDone rs => let '(st2, r, wrote2) := trange_loop nd st1 rs orders rpc db in (st2, r, wrote1 || wrote2)
    end.

  (* UpdateEventBasedDecryptedFlags for one key *)
  Definition tdecrypt (st : tstate) (k : ukey) : tstate :=
    if has_key k (reg_keys (st_rows (ts_core st))) && negb (has_key k (ts_decrypted st))
    then mktstate (ts_core st) (k :: ts_decrypted st) (ts_fired st) else st.

  (* ----------------------------------------------------------------------------------- *)
  (* specification vocabulary *)

  (* a log in the window of a trigger registered in block b: after b, not after the expiry, matching *)
  Definition window_match (u : uev) (b : Z) (p : pev titem) : bool :=
    match pe_ev p with
    | ILog l => (b <? pe_block p) && (pe_block p <=? ev_expiry u) && match_log (ev_definition u) l
    | IReg _ => false
    end.

  (* the earliest such log on the view up to block k *)
  Definition first_fire (v : view titem) (k : Z) (r : pev titem) : option (pev titem) :=
    match pe_ev r with
    | IReg u => find (window_match u (pe_block r)) (logs_of v 0 k)
    | ILog _ => None
    end.

  Definition fire_row (r l : pev titem) : fired :=
    mkfired (t_key (pe_ev r)) (pe_block l) (pe_bhash l) (pe_tx l) (pe_log l).

  (* the chain-derived fired set at position k: one row per registered trigger of [a, k] whose
     window contains a matching log, recording the earliest one *)
  Definition should_fire (v : view titem) (a k : Z) (f : fired) : Prop :=
    exists r l, In r (rows_of t_admissible v a k) /\ first_fire v k r = Some l /\ f = fire_row r l.

  (* a chain-level condition that implies the absence of the D10 shape for every range of at most
     r blocks: no trigger has a matching log within the r - 1 blocks after its registration block
     (vacuous for r = 1) *)
  Definition no_early_match (r : Z) (v : view titem) : Prop :=
    forall p u l, In p (rows_of t_admissible v 0 (head_number v)) -> pe_ev p = IReg u ->
                  In l (logs_of v 0 (head_number v)) -> window_match u (pe_block p) l = true ->
                  pe_block p + r <= pe_block l.

  (* The exact D10 shape: a range [s, e] is clear when no trigger registered inside it has a matching
     log later in the same range (first_fire up to e looks only at logs after the registration block) *)
  Definition range_clear (v : view titem) (s e : Z) : Prop :=
    forall p, In p (rows_of t_admissible v s e) -> first_fire v e p = None.

  (* the ranges a Sync on view v goes through from state st (all of them unless a failure stops it) *)
  Definition sync_ranges_of (fl : flavour) (v : view titem) (st : tstate) : list (Z * Z) :=
    let start := match reorg_target fl (node_of_view v) st with
                 | Some to => next_start fl (rollback_to (ts_core st) to)
                 | None => next_start fl (ts_core st)
                 end in
    match get_sync_ranges start (head_number v) (fl_range fl) with RangesDone rs => rs | RangesOutOfFuel => [] end.

  Definition d10_free (fl : flavour) (v : view titem) (st : tstate) : Prop :=
    forall s e, In (s, e) (sync_ranges_of fl v st) -> range_clear v s e.

  (* histories *)
  Inductive top :=
  | TSync (v : view titem) (orders : list bool) (rpc db : list fault)
  | TDecrypt (k : ukey).

  Record tgstate := mktg { tg_st : tstate; tg_view : view titem }.
  Definition tginit : tgstate := mktg tinit [].

  Definition tgstep (fl : flavour) (g : tgstate) (op : top) : tgstate :=
    match op with
    | TSync v orders rpc db =>
        let '(st', _, wrote) := tsync fl (node_of_view v) (tg_st g) orders rpc db in
        mktg st' (if wrote then v else tg_view g)
    | TDecrypt k => mktg (tdecrypt (tg_st g) k) (tg_view g)
    end.
  Definition tgrun (fl : flavour) (ops : list top) : tgstate := fold_left (tgstep fl) ops tginit.

  Definition top_views (ops : list top) : list (view titem) :=
    flat_map (fun op => match op with TSync v _ _ _ => [v] | TDecrypt _ => [] end) ops.

  Fixpoint theads_ok (fl : flavour) (g : tgstate) (ops : list top) : Prop :=
    match ops with
    | [] => True
    | op :: rest =>
        match op with
        | TSync v _ _ _ => head_ok fl (mkg (ts_core (tg_st g)) (tg_view g)) v
        | TDecrypt _ => True
        end /\ theads_ok fl (tgstep fl g op) rest
    end.

  (* no Sync of the history goes through a range that has the D10 shape *)
  Fixpoint td10_free (fl : flavour) (g : tgstate) (ops : list top) : Prop :=
    match ops with
    | [] => True
    | op :: rest =>
        match op with
        | TSync v _ _ _ => d10_free fl v (tg_st g)
        | TDecrypt _ => True
        end /\ td10_free fl (tgstep fl g op) rest
    end.

  (* the views of a history: each is a well-formed view (non-empty, non-empty hashes, keys unique,
     bounded head), and hashes identify blocks *)
  Definition tuniverse_ok (fl : flavour) (U : list (view titem)) : Prop :=
    (forall u, In u U -> view_ok t_key t_admissible fl u) /\
    (forall u w, In u U -> In w U -> hash_determines u w).

End TriggerSync.

Arguments IReg {LogT}. Arguments ILog {LogT}.
Arguments t_key {LogT}. Arguments t_admissible {LogT}. Arguments t_merge {LogT}.
Arguments mktstate {LogT}. Arguments ts_core {LogT}. Arguments ts_decrypted {LogT}. Arguments ts_fired {LogT}.
Arguments tinit {LogT}. Arguments reg_keys {LogT}. Arguments is_active {LogT}. Arguments active {LogT}.
Arguments log_matches {LogT}. Arguments fire_of {LogT}. Arguments fires_of_trigger {LogT}. Arguments fetch_fires {LogT}.
Arguments insert_fired {LogT}. Arguments insert_all {LogT}. Arguments commit_trange {LogT}.
Arguments trollback {LogT}. Arguments trange_loop {LogT}. Arguments tsync {LogT}. Arguments tdecrypt {LogT}.
Arguments window_match {LogT}. Arguments first_fire {LogT}. Arguments fire_row {LogT}. Arguments should_fire {LogT}.
Arguments no_early_match {LogT}. Arguments range_clear {LogT}. Arguments sync_ranges_of {LogT}. Arguments d10_free {LogT}. Arguments td10_free {LogT}. Arguments reorg_target {LogT}. Arguments TSync {LogT}. Arguments TDecrypt {LogT}.
Arguments mktg {LogT}. Arguments tg_st {LogT}. Arguments tg_view {LogT}. Arguments tginit {LogT}.
Arguments tuniverse_ok {LogT}. Arguments tgstep {LogT}. Arguments tgrun {LogT}. Arguments top_views {LogT}. Arguments theads_ok {LogT}.
