(* Model of keyper/shutterevents (events.go, marshal.go, helpers.go) and of makeEvents in
   keyper/smobserver/smdriver.go.  Go strings are byte lists ([bytes], arbitrary bytes, not
   only UTF-8).  Definitions only; proofs are in Proofs/Events*.v.

   The attribute codecs mirror marshal.go and the library functions it calls, with their
   leniencies written out:
     strconv.ParseUint(s,10,64)  digits only (no sign, no underscore), leading zeros accepted,
                                 empty string and values >= 2^64 are errors;
     common.HexToAddress         optional 0x/0X, odd length padded with a leading 0, hex decoding
                                 stops silently at the first bad character, the last 20 bytes
                                 are kept / short input is left-padded (decodeAddress then
                                 requires a.Hex() == s, which removes all of that again);
     common.IsHexAddress         optional 0x/0X followed by exactly 40 hex digits of any case;
     hexutil.Decode              mandatory 0x/0X, even number of hex digits of any case;
     hex.DecodeString            even number of hex digits of any case;
     base64.RawURLEncoding       '\r' and '\n' skipped anywhere, no padding character, length
                                 mod 4 <> 1, unused trailing bits ignored (non-strict).
   Curve points (blst G2, compressed, 96 bytes), ECIES keys (secp256k1, 65 bytes) and the EIP-55
   casing (Keccak) belong to dependencies: they are Section variables.

   Which attributes an event has, in which order, with which codec, from which struct field,
   and what makeXxx reads, comes from Generated/EventSchema.v (translator). *)
From Coq Require Import String Ascii List NArith ZArith Bool.
From Verif Require Import Lib.Bytes Generated.EventSchema.
Import ListNotations.
Open Scope N_scope.

(* ASCII bytes of a Coq string literal *)
Fixpoint bs (s : string) : bytes :=
  match s with
  | EmptyString => []
  | String a r => N_of_ascii a :: bs r
  end.

Fixpoint map_opt {A B : Type} (f : A -> option B) (l : list A) : option (list B) :=
  match l with
  | [] => Some []
  | x :: r =>
      match f x with
      | None => None
      | Some y => match map_opt f r with None => None | Some t => Some (y :: t) end
      end
  end.

(* ---------------------------------------------------------------------------------- *)
(* decimal uint64: strconv.FormatUint(v, 10) / fmt.Sprintf("%d", v) and ParseUint(s, 10, 64) *)

Definition u64_max : N := 18446744073709551615.
Definition u64 (n : N) : N := n mod 18446744073709551616.

Fixpoint fmt_digits (fuel : nat) (n : N) (acc : bytes) : bytes :=
  match fuel with
  | O => acc
  | S f =>
      let acc' := (48 + n mod 10) :: acc in
      if n / 10 =? 0 then acc' else fmt_digits f (n / 10) acc'
  end.

(* the argument is a uint64: 20 digits always suffice *)
Definition format_uint (n : N) : bytes := fmt_digits 20 (u64 n) [].

Definition cutoff10 : N := u64_max / 10 + 1.

(* the loop of ParseUint for base 10, bitSize 64: a non-digit is a syntax error, n >= cutoff
   before the multiplication or n*10+d > maxVal is a range error; both are errors *)
Fixpoint parse_uint_loop (s : bytes) (n : N) : option N :=
  match s with
  | [] => Some n
  | c :: r =>
      if (48 <=? c) && (c <=? 57) then
        if cutoff10 <=? n then None
        else let n1 := n * 10 + (c - 48) in
             if u64_max <? n1 then None else parse_uint_loop r n1
      else None
  end.

Definition parse_uint (s : bytes) : option N :=
  match s with
  | [] => None
  | _ => parse_uint_loop s 0
  end.

(* ---------------------------------------------------------------------------------- *)
(* encoding/hex *)

Definition hexdigit (d : N) : N := if d <? 10 then 48 + d else 87 + d.

Definition hex_encode (b : bytes) : bytes :=
  flat_map (fun x => [hexdigit (x / 16); hexdigit (x mod 16)]) b.

Definition unhex (c : N) : option N :=
  if (48 <=? c) && (c <=? 57) then Some (c - 48)
  else if (97 <=? c) && (c <=? 102) then Some (c - 87)
  else if (65 <=? c) && (c <=? 70) then Some (c - 55)
  else None.

(* hex.DecodeString: the bytes decoded before the first problem, and whether there was none
   (a bad character or a dangling last digit are both errors) *)
Fixpoint hex_decode (s : bytes) : bytes * bool :=
  match s with
  | [] => ([], true)
  | [_] => ([], false)
  | p :: q :: r =>
      match unhex p, unhex q with
      | Some a, Some b => let (t, ok) := hex_decode r in ((a * 16 + b) :: t, ok)
      | _, _ => ([], false)
      end
  end.

Definition hex_decode_strict (s : bytes) : option bytes :=
  let (b, ok) := hex_decode s in if ok then Some b else None.

Definition has0x (s : bytes) : bool :=
  match s with
  | 48 :: c :: _ => (c =? 120) || (c =? 88)
  | _ => false
  end.

Definition strip0x (s : bytes) : bytes := if has0x s then skipn 2 s else s.

(* ---------------------------------------------------------------------------------- *)
(* go-ethereum common: FromHex, BytesToAddress, HexToAddress, IsHexAddress *)

Definition from_hex (s : bytes) : bytes :=
  let s1 := strip0x s in
  let s2 := if Nat.odd (length s1) then 48 :: s1 else s1 in
  fst (hex_decode s2).

Definition bytes_to_address (b : bytes) : bytes :=
  let n := length b in
  let b' := if Nat.ltb 20 n then skipn (n - 20) b else b in
  repeat 0 (20 - length b') ++ b'.

Definition hex_to_address (s : bytes) : bytes := bytes_to_address (from_hex s).

Definition is_hex_char (c : N) : bool :=
  ((48 <=? c) && (c <=? 57)) || ((97 <=? c) && (c <=? 102)) || ((65 <=? c) && (c <=? 70)).

Definition is_hex_address (s : bytes) : bool :=
  let s' := strip0x s in
  Nat.eqb (length s') 40 && Nat.even (length s') && forallb is_hex_char s'.

(* ---------------------------------------------------------------------------------- *)
(* strings.Split(s, ",") and strings.Join(l, ",") *)

Fixpoint split_on (sep : N) (s : bytes) : list bytes :=
  match s with
  | [] => [[]]
  | c :: r =>
      if c =? sep then [] :: split_on sep r
      else match split_on sep r with
           | h :: t => (c :: h) :: t
           | [] => [[c]]
           end
  end.

Fixpoint join (sep : N) (l : list bytes) : bytes :=
  match l with
  | [] => []
  | x :: r => match r with [] => x | _ => x ++ sep :: join sep r end
  end.

Definition comma : N := 44.

(* ---------------------------------------------------------------------------------- *)
(* hexutil.Encode / hexutil.Decode and the byte-sequence list *)

Definition hexutil_encode (b : bytes) : bytes := 48 :: 120 :: hex_encode b.

Definition hexutil_decode (s : bytes) : option bytes :=
  match s with
  | [] => None
  | _ => if has0x s then hex_decode_strict (skipn 2 s) else None
  end.

Definition encode_byteseq (l : list bytes) : bytes := join comma (map hexutil_encode l).

Definition decode_byteseq (s : bytes) : option (list bytes) :=
  match s with
  | [] => Some []
  | _ => map_opt hexutil_decode (split_on comma s)
  end.

(* big.Int.Bytes() of a non-negative integer (big endian, no leading zero, 0 -> empty) and
   big.Int.SetBytes *)
Fixpoint be_bytes_fuel (fuel : nat) (n : N) (acc : bytes) : bytes :=
  match fuel with
  | O => acc
  | S f => if n =? 0 then acc else be_bytes_fuel f (n / 256) (n mod 256 :: acc)
  end.

(* the number of bits bounds the number of bytes: the fuel never runs out (Proofs) *)
Definition be_bytes (n : N) : bytes := be_bytes_fuel (N.size_nat n) n [].

Definition of_be_bytes (b : bytes) : N := fold_left (fun acc x => acc * 256 + x) b 0.

(* crypto.FromECDSAPub = elliptic.Marshal on secp256k1: the byte 4, then X and then Y, each
   written big endian into EXACTLY 32 bytes (left-padded with zero bytes; readBits keeps the low
   32 bytes).  crypto.UnmarshalPubkey accepts only strings of exactly 65 bytes. *)
Definition pad_be (w : nat) (n : N) : bytes :=
  let b := be_bytes n in repeat 0 (w - length b) ++ skipn (length b - w) b.

Definition coord_len : nat := 32.
Definition key_len : nat := 65.

Definition marshal_pubkey (x y : N) : bytes := 4 :: pad_be coord_len x ++ pad_be coord_len y.

(* ---------------------------------------------------------------------------------- *)
(* base64.RawURLEncoding *)

Definition b64char (d : N) : N :=
  if d <? 26 then 65 + d
  else if d <? 52 then 71 + d
  else if d <? 62 then d - 4
  else if d =? 62 then 45 else 95.

Definition unb64 (c : N) : option N :=
  if (65 <=? c) && (c <=? 90) then Some (c - 65)
  else if (97 <=? c) && (c <=? 122) then Some (c - 71)
  else if (48 <=? c) && (c <=? 57) then Some (c + 4)
  else if c =? 45 then Some 62
  else if c =? 95 then Some 63
  else None.

Fixpoint b64_encode (b : bytes) : bytes :=
  match b with
  | [] => []
  | [x] => [b64char (x / 4); b64char ((x mod 4) * 16)]
  | [x; y] => [b64char (x / 4); b64char ((x mod 4) * 16 + y / 16); b64char ((y mod 16) * 4)]
  | x :: y :: z :: r =>
      b64char (x / 4) :: b64char ((x mod 4) * 16 + y / 16)
      :: b64char ((y mod 16) * 4 + z / 64) :: b64char (z mod 64) :: b64_encode r
  end.

(* sextets to bytes; one dangling sextet is an error, unused trailing bits are dropped *)
Fixpoint b64_join (q : list N) : option bytes :=
  match q with
  | [] => Some []
  | [_] => None
  | [a; b] => Some [a * 4 + b / 16]
  | [a; b; c] => Some [a * 4 + b / 16; (b mod 16) * 16 + c / 4]
  | a :: b :: c :: d :: r =>
      match b64_join r with
      | None => None
      | Some t => Some ((a * 4 + b / 16) :: ((b mod 16) * 16 + c / 4) :: ((c mod 4) * 64 + d) :: t)
      end
  end.

Definition b64_decode (s : bytes) : option bytes :=
  let s' := filter (fun c => negb ((c =? 10) || (c =? 13))) s in
  match map_opt unb64 s' with
  | None => None
  | Some q => b64_join q
  end.

(* ---------------------------------------------------------------------------------- *)
(* outcomes *)

Inductive err :=
| EUnknownType            (* MakeEvent: "cannot make event from type" *)
| ETooFew                 (* expectAttributes: "expected at least n attributes" *)
| EBadKey (i : nat)       (* expectAttributes: "bad attribute ... at position i" *)
| EDecode (c : codec).    (* the decoder of that kind returned an error *)

(* Panic: an index out of range at run time.  Unmodelled: the generated schema describes Go
   code that would not compile (a codec applied to a field of another type) or that leaves a
   pointer field nil; the model does not follow such code. *)
Inductive outcome (A : Type) :=
| Ok (a : A)
| Error (e : err)
| Panic
| Unmodelled.
Arguments Ok {A} a.
Arguments Error {A} e.
Arguments Panic {A}.
Arguments Unmodelled {A}.

Record attr := mk_attr { a_key : bytes; a_value : bytes; a_index : bool }.

(* abcitypes.Event: type string and attributes *)
Definition abci_event : Type := bytes * list attr.

Definition lookup {V : Type} (name : string) (fs : list (string * V)) : option V :=
  option_map snd (find (fun p => String.eqb (fst p) name) fs).

Section Codecs.

Variable point : Type.                      (* blst.P2Affine accepted by Uncompress + InG2 *)
Variable key : Type.                        (* secp256k1 public key accepted by UnmarshalPubkey *)
Variable cs : bytes -> list bool.           (* EIP-55: which hex digits of the address are upper-cased *)
Variable enc_pt : point -> bytes.           (* P2Affine.Compress *)
Variable dec_pt : bytes -> option point.    (* Uncompress, nil or not InG2 -> None *)
Variable enc_key : key -> bytes.            (* crypto.FromECDSAPub: [marshal_pubkey] of the coordinates *)
Variable dec_key : bytes -> option key.     (* crypto.UnmarshalPubkey *)

(* common.Address.Hex(): "0x", lower-case hex, letters upper-cased where the hash says so *)
Fixpoint apply_case (m : list bool) (h : bytes) : bytes :=
  match h, m with
  | [], _ => []
  | c :: r, [] => c :: r
  | c :: r, u :: m' => (if u && (57 <? c) then c - 32 else c) :: apply_case m' r
  end.

Definition address_hex (a : bytes) : bytes := 48 :: 120 :: apply_case (cs a) (hex_encode a).

(* decodeAddress: a := HexToAddress(s); if a.Hex() != s -> error *)
Definition decode_address (s : bytes) : option bytes :=
  let a := hex_to_address s in
  if bytes_eqb (address_hex a) s then Some a else None.

Definition encode_addresses (l : list bytes) : bytes := join comma (map address_hex l).

Definition decode_addresses (s : bytes) : option (list bytes) :=
  match s with
  | [] => Some []
  | _ => map_opt (fun a => if is_hex_address a then Some (hex_to_address a) else None)
                 (split_on comma s)
  end.

(* shcrypto.Gammas.Marshal / Unmarshal around hex.EncodeToString / hex.DecodeString *)
Definition pt_len : nat := 96.

Definition encode_gammas (g : list point) : bytes := hex_encode (concat (map enc_pt g)).

Definition unmarshal_gammas (m : bytes) : option (list point) :=
  if Nat.eqb (Nat.modulo (length m) pt_len) 0 then
    map_opt (fun i => dec_pt (firstn pt_len (skipn (i * pt_len) m)))
            (seq 0 (Nat.div (length m) pt_len))
  else None.

Definition decode_gammas (s : bytes) : option (list point) :=
  match hex_decode_strict s with
  | None => None
  | Some m => unmarshal_gammas m
  end.

(* encodeECIESPublicKey / decodeECIESPublicKey *)
Definition encode_key (k : key) : bytes := b64_encode (enc_key k).

Definition decode_key (s : bytes) : option key :=
  match b64_decode s with
  | None => None
  | Some b => dec_key b
  end.

(* ---------------------------------------------------------------------------------- *)
(* field values *)

Inductive value :=
| VUint (n : N)                  (* uint64 *)
| VAddr (a : bytes)              (* common.Address, 20 bytes *)
| VAddrs (l : list bytes)        (* []common.Address *)
| VBytesList (l : list bytes)    (* [][]byte *)
| VBigInts (l : list N)          (* []*big.Int, non-negative *)
| VGammas (g : list point)       (* *shcrypto.Gammas, not nil *)
| VKey (k : key).                (* *ecies.PublicKey, not nil *)

Definition encode_value (c : codec) (v : via) (x : value) : option bytes :=
  match c, v, x with
  | CUint64, VDirect, VUint n => Some (format_uint n)
  | CSprintfD, VDirect, VUint n => Some (format_uint n)
  | CAddress, VDirect, VAddr a => Some (address_hex a)
  | CAddresses, VDirect, VAddrs l => Some (encode_addresses l)
  | CByteSequence, VDirect, VBytesList l => Some (encode_byteseq l)
  | CByteSequence, VBigIntBytes, VBigInts l => Some (encode_byteseq (map be_bytes l))
  | CGammas, VDirect, VGammas g => Some (encode_gammas g)
  | CECIESPublicKey, VDirect, VKey k => Some (encode_key k)
  | _, _, _ => None
  end.

Definition lift_dec (c : codec) (o : option value) : outcome value :=
  match o with
  | Some x => Ok x
  | None => Error (EDecode c)
  end.

Definition decode_value (c : codec) (v : via) (s : bytes) : outcome value :=
  match c, v with
  | CUint64, VDirect => lift_dec c (option_map VUint (parse_uint s))
  | CAddress, VDirect => lift_dec c (option_map VAddr (decode_address s))
  | CAddresses, VDirect => lift_dec c (option_map VAddrs (decode_addresses s))
  | CByteSequence, VDirect => lift_dec c (option_map VBytesList (decode_byteseq s))
  | CByteSequence, VBigIntBytes =>
      lift_dec c (option_map (fun l => VBigInts (map of_be_bytes l)) (decode_byteseq s))
  | CGammas, VDirect => lift_dec c (option_map VGammas (decode_gammas s))
  | CECIESPublicKey, VDirect => lift_dec c (option_map VKey (decode_key s))
  | _, _ => Unmodelled
  end.

(* ---------------------------------------------------------------------------------- *)
(* the eight event structs of events.go *)

Inductive event :=
| EvCheckIn (height : Z) (sender : bytes) (pk : key)
| EvBatchConfig (height : Z) (keypers : list bytes) (activation threshold config_index : N)
                (started validators_updated : bool)
| EvBatchConfigStarted (height : Z) (config_index : N)
| EvEonStarted (height : Z) (eon activation config_index : N)
| EvPolyCommitment (height : Z) (eon : N) (sender : bytes) (gammas : list point)
| EvPolyEval (height : Z) (sender : bytes) (eon : N) (receivers : list bytes)
             (encrypted_evals : list bytes)
| EvAccusation (height : Z) (eon : N) (sender : bytes) (accused : list bytes)
| EvApology (height : Z) (eon : N) (sender : bytes) (accusers : list bytes) (poly_eval : list N).

Definition ev_struct (e : event) : string :=
  match e with
  | EvCheckIn _ _ _ => "CheckIn"
  | EvBatchConfig _ _ _ _ _ _ _ => "BatchConfig"
  | EvBatchConfigStarted _ _ => "BatchConfigStarted"
  | EvEonStarted _ _ _ _ => "EonStarted"
  | EvPolyCommitment _ _ _ _ => "PolyCommitment"
  | EvPolyEval _ _ _ _ _ => "PolyEval"
  | EvAccusation _ _ _ _ => "Accusation"
  | EvApology _ _ _ _ _ => "Apology"
  end%string.

(* the serialisable fields by their Go names (Height, Started, ValidatorsUpdated are not
   serialised) *)
Definition to_fields (e : event) : list (string * value) :=
  match e with
  | EvCheckIn _ s k => [("Sender", VAddr s); ("EncryptionPublicKey", VKey k)]
  | EvBatchConfig _ ks a t i _ _ =>
      [("Keypers", VAddrs ks); ("ActivationBlockNumber", VUint a); ("Threshold", VUint t);
       ("KeyperConfigIndex", VUint i)]
  | EvBatchConfigStarted _ i => [("KeyperConfigIndex", VUint i)]
  | EvEonStarted _ e a i =>
      [("Eon", VUint e); ("ActivationBlockNumber", VUint a); ("KeyperConfigIndex", VUint i)]
  | EvPolyCommitment _ e s g => [("Eon", VUint e); ("Sender", VAddr s); ("Gammas", VGammas g)]
  | EvPolyEval _ s e rs evs =>
      [("Sender", VAddr s); ("Eon", VUint e); ("Receivers", VAddrs rs);
       ("EncryptedEvals", VBytesList evs)]
  | EvAccusation _ e s acc => [("Eon", VUint e); ("Sender", VAddr s); ("Accused", VAddrs acc)]
  | EvApology _ e s acc pe =>
      [("Eon", VUint e); ("Sender", VAddr s); ("Accusers", VAddrs acc); ("PolyEval", VBigInts pe)]
  end%string.

(* a field the result literal of makeXxx does not mention keeps its zero value; a value of
   another type in a field is Go code that does not compile (None) *)
Definition get_uint (fs : list (string * value)) (name : string) : option N :=
  match lookup name fs with
  | None => Some 0
  | Some (VUint n) => Some n
  | Some _ => None
  end.
Definition get_addr (fs : list (string * value)) (name : string) : option bytes :=
  match lookup name fs with
  | None => Some (repeat 0 20)
  | Some (VAddr a) => Some a
  | Some _ => None
  end.
Definition get_addrs (fs : list (string * value)) (name : string) : option (list bytes) :=
  match lookup name fs with
  | None => Some []
  | Some (VAddrs l) => Some l
  | Some _ => None
  end.
Definition get_byteslist (fs : list (string * value)) (name : string) : option (list bytes) :=
  match lookup name fs with
  | None => Some []
  | Some (VBytesList l) => Some l
  | Some _ => None
  end.
Definition get_bigints (fs : list (string * value)) (name : string) : option (list N) :=
  match lookup name fs with
  | None => Some []
  | Some (VBigInts l) => Some l
  | Some _ => None
  end.
(* pointer fields: left nil is not modelled *)
Definition get_gammas (fs : list (string * value)) (name : string) : option (list point) :=
  match lookup name fs with
  | Some (VGammas g) => Some g
  | _ => None
  end.
Definition get_key (fs : list (string * value)) (name : string) : option key :=
  match lookup name fs with
  | Some (VKey k) => Some k
  | _ => None
  end.

Definition of_fields (st : string) (h : Z) (fs : list (string * value)) : option event :=
  (if String.eqb st "CheckIn" then
     match get_addr fs "Sender", get_key fs "EncryptionPublicKey" with
     | Some s, Some k => Some (EvCheckIn h s k)
     | _, _ => None
     end
   else if String.eqb st "BatchConfig" then
     match get_addrs fs "Keypers", get_uint fs "ActivationBlockNumber", get_uint fs "Threshold",
           get_uint fs "KeyperConfigIndex" with
     | Some ks, Some a, Some t, Some i => Some (EvBatchConfig h ks a t i false false)
     | _, _, _, _ => None
     end
   else if String.eqb st "BatchConfigStarted" then
     match get_uint fs "KeyperConfigIndex" with
     | Some i => Some (EvBatchConfigStarted h i)
     | None => None
     end
   else if String.eqb st "EonStarted" then
     match get_uint fs "Eon", get_uint fs "ActivationBlockNumber", get_uint fs "KeyperConfigIndex" with
     | Some e, Some a, Some i => Some (EvEonStarted h e a i)
     | _, _, _ => None
     end
   else if String.eqb st "PolyCommitment" then
     match get_uint fs "Eon", get_addr fs "Sender", get_gammas fs "Gammas" with
     | Some e, Some s, Some g => Some (EvPolyCommitment h e s g)
     | _, _, _ => None
     end
   else if String.eqb st "PolyEval" then
     match get_addr fs "Sender", get_uint fs "Eon", get_addrs fs "Receivers",
           get_byteslist fs "EncryptedEvals" with
     | Some s, Some e, Some rs, Some evs => Some (EvPolyEval h s e rs evs)
     | _, _, _, _ => None
     end
   else if String.eqb st "Accusation" then
     match get_uint fs "Eon", get_addr fs "Sender", get_addrs fs "Accused" with
     | Some e, Some s, Some acc => Some (EvAccusation h e s acc)
     | _, _, _ => None
     end
   else if String.eqb st "Apology" then
     match get_uint fs "Eon", get_addr fs "Sender", get_addrs fs "Accusers",
           get_bigints fs "PolyEval" with
     | Some e, Some s, Some acc, Some pe => Some (EvApology h e s acc pe)
     | _, _, _, _ => None
     end
   else None)%string.

(* ---------------------------------------------------------------------------------- *)
(* X.MakeABCIEvent() *)

Definition find_encoder (st : string) : option enc_schema :=
  find (fun e => String.eqb (en_struct e) st) encoders.

Definition encode_attr (fs : list (string * value)) (a : enc_attr) : option attr :=
  match lookup (ea_field a) fs with
  | None => None
  | Some v =>
      match encode_value (ea_codec a) (ea_via a) v with
      | None => None
      | Some s => Some (mk_attr (bs (ea_key a)) s (ea_index a))
      end
  end.

Definition encode_with (sc : enc_schema) (fs : list (string * value)) : outcome abci_event :=
  match map_opt (encode_attr fs) (en_attrs sc) with
  | None => Unmodelled
  | Some l => Ok (bs (en_type sc), l)
  end.

Definition make_abci_event (e : event) : outcome abci_event :=
  match find_encoder (ev_struct e) with
  | None => Unmodelled
  | Some sc => encode_with sc (to_fields e)
  end.

(* ---------------------------------------------------------------------------------- *)
(* expectAttributes, makeXxx, MakeEvent *)

(* the loop `for i, n := range names { if ev.Attributes[i].Key != n {...} }` *)
Fixpoint expect_names (attrs : list attr) (i : nat) (names : list string) : outcome unit :=
  match names with
  | [] => Ok tt
  | n :: r =>
      match nth_error attrs i with
      | None => Panic
      | Some a =>
          if bytes_eqb (a_key a) (bs n) then expect_names attrs (S i) r else Error (EBadKey i)
      end
  end.

Definition expect_attributes (attrs : list attr) (names : list string) : outcome unit :=
  if expect_attributes_length_guard && Nat.ltb (length attrs) (length names)
  then Error ETooFew
  else expect_names attrs 0 names.

(* v, err := decodeK(ev.Attributes[i].Value); if err != nil { return nil, err }  -- in order *)
Fixpoint decode_reads (attrs : list attr) (reads : list dec_read) (acc : list (string * value))
  : outcome (list (string * value)) :=
  match reads with
  | [] => Ok acc
  | r :: rest =>
      match nth_error attrs (dr_pos r) with
      | None => Panic
      | Some a =>
          match decode_value (dr_codec r) (dr_via r) (a_value a) with
          | Ok v => decode_reads attrs rest (acc ++ [(dr_field r, v)])
          | Error e => Error e
          | Panic => Panic
          | Unmodelled => Unmodelled
          end
      end
  end.

Definition decode_with (d : dec_schema) (attrs : list attr) (h : Z) : outcome event :=
  match expect_attributes attrs (de_names d) with
  | Ok _ =>
      match decode_reads attrs (de_reads d) [] with
      | Ok fs =>
          match of_fields (de_struct d) (if de_height d then h else 0%Z) fs with
          | Some e => Ok e
          | None => Unmodelled
          end
      | Error e => Error e
      | Panic => Panic
      | Unmodelled => Unmodelled
      end
  | Error e => Error e
  | Panic => Panic
  | Unmodelled => Unmodelled
  end.

(* the switch on ev.Type: first matching case *)
Definition find_decoder (t : bytes) : option dec_schema :=
  find (fun d => bytes_eqb (bs (de_type d)) t) decoders.

Definition make_event (ev : abci_event) (h : Z) : outcome event :=
  match find_decoder (fst ev) with
  | None => Error EUnknownType
  | Some d => decode_with d (snd ev) h
  end.

(* smobserver.makeEvents: malformed events are logged and skipped, the others kept in order *)
Fixpoint make_events (h : Z) (evs : list abci_event) : outcome (list event) :=
  match evs with
  | [] => Ok []
  | ev :: r =>
      match make_event ev h with
      | Panic => Panic
      | Unmodelled => Unmodelled
      | Error _ => make_events h r
      | Ok x =>
          match make_events h r with
          | Ok l => Ok (x :: l)
          | o => o
          end
      end
  end.

End Codecs.
