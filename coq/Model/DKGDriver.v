(* Executable model of keyper/smobserver/smstate.go and the block transaction of
   smdriver.go (handleBlock), on decoded events.

   One keyper's state is (db, sm): [db] the durable tables the shuttermint observer touches,
   [sm] the volatile ShuttermintState cache (synchronized, isKeyper, the map eon -> ActiveDKG
   with its dirty bit).  [handle_block] is the body of the database transaction that
   fetchEvents2 opens per block: Load if not synchronised, the height check, TMSetSyncMeta,
   shiftPhases *before* the block's events, HandleEvent for every event, BeforeSaveHook
   (sendPolyEvals), Save.  Its outcome is TOk (commit), TErr (an error return: rollback, the
   caller invalidates the cache) or TPanic.

   Values are abstract as in Model/DKGPure.v.  Encryption is an ideal channel: a PolyEval event
   carries, per receiver, what that receiver's key decrypts the blob to (None: decryption
   fails); the queued poly-eval message carries the plaintexts.  Addresses are byte strings;
   `medley.FindAddressIndex` is [find_index].  Config indices are assumed below 2^31 and
   activation block numbers below 2^63 (the code casts them to int32 / int64).
   `for eon, dkg := range st.dkg` (shiftPhases, Save) enumerates through [enum]. *)
From Coq Require Import List NArith ZArith Bool Lia.
From Verif Require Import Lib.Bytes Model.DKGPure.
Import ListNotations.
Open Scope Z_scope.

Definition addr := bytes.

Fixpoint find_index (l : list addr) (a : addr) (i : nat) : option nat :=
  match l with
  | [] => None
  | x :: r => if bytes_eqb x a then Some i else find_index r a (S i)
  end.

Definition is_member (l : list addr) (a : addr) : bool :=
  match find_index l a 0 with Some _ => true | None => false end.

(* maps keyed by N (eon, config index, message id) as association lists *)
Section NMap.
  Context {V : Type}.
  Fixpoint nget (m : list (N * V)) (k : N) : option V :=
    match m with [] => None | (k', v) :: r => if N.eqb k' k then Some v else nget r k end.
  Fixpoint nset (m : list (N * V)) (k : N) (v : V) : list (N * V) :=
    match m with
    | [] => [(k, v)]
    | (k', v') :: r => if N.eqb k' k then (k', v) :: r else (k', v') :: nset r k v
    end.
  (* insertion that keeps the keys in ascending order (the representation of the cache's Go
     map: a canonical list, so that two maps with the same entries are the same list) *)
  Fixpoint nins (m : list (N * V)) (k : N) (v : V) : list (N * V) :=
    match m with
    | [] => [(k, v)]
    | (k', v') :: r =>
        if N.eqb k' k then (k, v) :: r
        else if N.ltb k k' then (k, v) :: (k', v') :: r
        else (k', v') :: nins r k v
    end.
  Fixpoint ndel (m : list (N * V)) (k : N) : list (N * V) :=
    match m with [] => [] | (k', v') :: r => if N.eqb k' k then ndel r k else (k', v') :: ndel r k end.
End NMap.

(* dkgphase.GetPhaseAtHeight for NewConstantPhaseLength(L) *)
Definition phase_at (L height start : Z) : phase :=
  if height <? start + 0 * L then Off
  else if height <? start + 1 * L then Dealing
  else if height <? start + 2 * L then Accusing
  else if height <? start + 3 * L then Apologizing
  else Finalized.

Fixpoint insert_sorted (x : N) (l : list N) : list N :=
  match l with
  | [] => [x]
  | y :: r => if N.ltb x y then x :: l else if N.eqb x y then l else y :: insert_sorted x r
  end.

Inductive tx (A : Type) := TOk (a : A) | TErr | TPanic.
Arguments TOk {A}.
Arguments TErr {A}.
Arguments TPanic {A}.

Definition bind {A B} (x : tx A) (f : A -> tx B) : tx B :=
  match x with TOk a => f a | TErr => TErr | TPanic => TPanic end.

Section Driver.
Variables C E P : Type.
Variable commit_of : P -> C.
Variable eval_of : P -> nat -> E.
Variable verify : nat -> E -> C -> bool.
Variable deg_ok : N -> C -> bool.
Variable valid_eval : E -> bool.

Notation pure := (@DKGPure.pure C E P).

(* decoded shuttermint events (shutterevents.IEvent); the height is the block's *)
Inductive dev :=
| DCheckIn (sender : addr)
| DBatchConfig (idx act thr : N) (keypers : list addr) (started : bool)
| DBatchConfigStarted (idx : N)
| DEonStarted (eon act idx : N)
| DCommit (sender : addr) (eon : N) (c : C)
| DEval (sender : addr) (eon : N) (receivers : list addr) (vals : list (option E))
| DAccusation (sender : addr) (eon : N) (accused : list addr)
| DApology (sender : addr) (eon : N) (accusers : list addr) (vals : list E).

(* shuttermint messages a keyper queues *)
Inductive msg :=
| MCheckIn
| MVote (act idx : N)                         (* batch config vote *)
| MBlockSeen (bn : N)
| MCommit (eon : N) (c : C)
| MEvals (eon : N) (receivers : list addr) (vals : list E)
| MAccusation (eon : N) (accused : list addr)
| MApology (eon : N) (accusers : list addr) (vals : list E)
| MResult (eon : N) (success : bool).

Record cfgrow := mkCfg { cf_height : Z; cf_keypers : list addr; cf_threshold : N; cf_started : bool; cf_act : N }.
Record eonrow := mkEon { eo_height : Z; eo_act : N; eo_cfg : N }.
Record resrow := mkRes { rs_success : bool; rs_result : cres C E }.

Record db := mkDb {
  db_sync : Z;                               (* newest tendermint_sync_meta.current_block *)
  db_lch : Z;                                (* its last_committed_height *)
  db_applied : list (Z * list dev);          (* ghost: the blocks whose transaction committed *)
  db_cfgs : list (N * cfgrow);               (* tendermint_batch_config *)
  db_eons : list (N * eonrow);               (* eons *)
  db_pure : list (N * pure);                 (* puredkg *)
  db_evals : list (N * (addr * E));          (* poly_evals: eon, receiver, eval *)
  db_keys : list addr;                       (* addresses with a row in tendermint_encryption_key *)
  db_outbox : list (N * (option (N * N) * msg));  (* id -> (vote description, message) *)
  db_nextid : N;                             (* the SERIAL sequence *)
  db_results : list (N * resrow);            (* dkg_result *)
  db_eonkeys : list N                        (* outgoing_eon_keys *)
}.

Definition upd_db_sync (d : db) (h lch : Z) (blk : Z * list dev) : db :=
  mkDb h lch (db_applied d ++ [blk]) (db_cfgs d) (db_eons d) (db_pure d) (db_evals d) (db_keys d) (db_outbox d)
       (db_nextid d) (db_results d) (db_eonkeys d).
Definition upd_db_cfgs (d : db) x : db :=
  mkDb (db_sync d) (db_lch d) (db_applied d) x (db_eons d) (db_pure d) (db_evals d) (db_keys d) (db_outbox d)
       (db_nextid d) (db_results d) (db_eonkeys d).
Definition upd_db_eons (d : db) x : db :=
  mkDb (db_sync d) (db_lch d) (db_applied d) (db_cfgs d) x (db_pure d) (db_evals d) (db_keys d) (db_outbox d)
       (db_nextid d) (db_results d) (db_eonkeys d).
Definition upd_db_pure (d : db) x : db :=
  mkDb (db_sync d) (db_lch d) (db_applied d) (db_cfgs d) (db_eons d) x (db_evals d) (db_keys d) (db_outbox d)
       (db_nextid d) (db_results d) (db_eonkeys d).
Definition upd_db_evals (d : db) x : db :=
  mkDb (db_sync d) (db_lch d) (db_applied d) (db_cfgs d) (db_eons d) (db_pure d) x (db_keys d) (db_outbox d)
       (db_nextid d) (db_results d) (db_eonkeys d).
Definition upd_db_keys (d : db) x : db :=
  mkDb (db_sync d) (db_lch d) (db_applied d) (db_cfgs d) (db_eons d) (db_pure d) (db_evals d) x (db_outbox d)
       (db_nextid d) (db_results d) (db_eonkeys d).
Definition upd_db_outbox (d : db) x nid : db :=
  mkDb (db_sync d) (db_lch d) (db_applied d) (db_cfgs d) (db_eons d) (db_pure d) (db_evals d) (db_keys d) x
       nid (db_results d) (db_eonkeys d).
Definition upd_db_results (d : db) x : db :=
  mkDb (db_sync d) (db_lch d) (db_applied d) (db_cfgs d) (db_eons d) (db_pure d) (db_evals d) (db_keys d) (db_outbox d)
       (db_nextid d) x (db_eonkeys d).
Definition upd_db_eonkeys (d : db) x : db :=
  mkDb (db_sync d) (db_lch d) (db_applied d) (db_cfgs d) (db_eons d) (db_pure d) (db_evals d) (db_keys d) (db_outbox d)
       (db_nextid d) (db_results d) x.

(* a database right after KeyperDB.Init *)
Definition db_init : db := mkDb 0 (-1) [] [] [] [] [] [] [] 1%N [] [].

(* ScheduleShutterMessage *)
Definition schedule (d : db) (desc : option (N * N)) (m : msg) : db :=
  upd_db_outbox d (db_outbox d ++ [(db_nextid d, (desc, m))]) (N.succ (db_nextid d)).

Definition desc_eqb (a b : option (N * N)) : bool :=
  match a, b with
  | Some (x, y), Some (x', y') => N.eqb x x' && N.eqb y y'
  | None, None => true
  | _, _ => false
  end.

(* DeleteShutterMessageByDesc for a vote description *)
Definition delete_by_desc (d : db) (desc : option (N * N)) : db :=
  upd_db_outbox d (filter (fun r => negb (desc_eqb (fst (snd r)) desc)) (db_outbox d)) (db_nextid d).

Record active := mkActive { a_pure : pure; a_start : Z; a_dirty : bool; a_keypers : list addr }.

Record sm := mkSm { sm_sync : bool; sm_iskeyper : bool; sm_dkg : list (N * active) }.

Definition sm_fresh : sm := mkSm false false [].

Definition set_dkg (s : sm) (eon : N) (a : active) : sm := mkSm (sm_sync s) (sm_iskeyper s) (nins (sm_dkg s) eon a).
Definition del_dkg (s : sm) (eon : N) : sm := mkSm (sm_sync s) (sm_iskeyper s) (ndel (sm_dkg s) eon).

Variable me : addr.
Variable L : Z.                                        (* DKGPhaseLength *)
Variable enum : list (N * active) -> list (N * active). (* Go's map enumeration *)
Variable poly_for : N -> P.                            (* the polynomial drawn if dealing starts for the eon *)

Definition st := (db * sm)%type.

(* ---- Load / loadDKG ---- *)
Fixpoint load_dkgs (d : db) (rows : list (N * pure)) : tx (list (N * active)) :=
  match rows with
  | [] => TOk []
  | (eon, p) :: r =>
      match nget (db_eons d) eon with
      | None => TErr
      | Some er =>
          match nget (db_cfgs d) (eo_cfg er) with
          | None => TErr
          | Some cr =>
              bind (load_dkgs d r) (fun rest =>
                TOk (nins rest eon (mkActive p (eo_height er) false (cf_keypers cr))))
          end
      end
  end.

Definition load (d : db) (s : sm) : tx sm :=
  if sm_sync s then TOk s
  else bind (load_dkgs d (db_pure d))
            (fun m => TOk (mkSm true (negb (Nat.eqb (length (db_cfgs d)) 0)) m)).

(* ---- phase transitions ---- *)
Definition mark (a : active) (p : pure) : active := mkActive p (a_start a) true (a_keypers a).

Fixpoint insert_evals (d : db) (eon : N) (keypers : list addr) (l : list (nat * E)) : tx db :=
  match l with
  | [] => TOk d
  | (r, v) :: rest =>
      match nth_error keypers r with
      | None => TPanic
      | Some a =>
          if existsb (fun row => N.eqb (fst row) eon && bytes_eqb (fst (snd row)) a) (db_evals d) then TErr
          else insert_evals (upd_db_evals d (db_evals d ++ [(eon, (a, v))])) eon keypers rest
      end
  end.

Definition idx_addrs (keypers : list addr) (l : list nat) : option (list addr) :=
  fold_right (fun i acc => match nth_error keypers i, acc with
                           | Some a, Some r => Some (a :: r)
                           | _, _ => None end) (Some []) l.

Definition start1 (x : st) (eon : N) (a : active) : tx (st * active) :=
  let '(d, s) := x in
  match start_phase1 C E P commit_of eval_of valid_eval (a_pure a) (poly_for eon) with
  | None => TPanic
  | Some (p', c, evals) =>
      let a' := mark a p' in
      let d1 := schedule d None (MCommit eon c) in
      bind (insert_evals d1 eon (a_keypers a) evals) (fun d2 => TOk ((d2, set_dkg s eon a'), a'))
  end.

Definition start2 (x : st) (eon : N) (a : active) : tx (st * active) :=
  let '(d, s) := x in
  match start_phase2 C E P verify (a_pure a) with
  | None => TPanic
  | Some (p', accs) =>
      let a' := mark a p' in
      match accs with
      | [] => TOk ((d, set_dkg s eon a'), a')
      | _ => match idx_addrs (a_keypers a) accs with
             | None => TPanic
             | Some l => TOk ((schedule d None (MAccusation eon l), set_dkg s eon a'), a')
             end
      end
  end.

Definition start3 (x : st) (eon : N) (a : active) : tx (st * active) :=
  let '(d, s) := x in
  match start_phase3 C E P eval_of (a_pure a) with
  | None => TPanic
  | Some (p', apos) =>
      let a' := mark a p' in
      match apos with
      | [] => TOk ((d, set_dkg s eon a'), a')
      | _ => match idx_addrs (a_keypers a) (map fst apos) with
             | None => TPanic
             | Some l => TOk ((schedule d None (MApology eon l (map snd apos)), set_dkg s eon a'), a')
             end
      end
  end.

Definition is_result (r : cres C E) : bool := match r with CResult _ _ => true | _ => false end.

(* finalizeDKG *)
Definition finalize_dkg (x : st) (eon : N) (a : active) : tx (st * active) :=
  let '(d, s) := x in
  match finalize (a_pure a) with
  | None => TPanic
  | Some p' =>
      let a' := mkActive p' (a_start a) (a_dirty a) (a_keypers a) in
      let s1 := del_dkg s eon in
      let d1 := upd_db_pure d (ndel (db_pure d) eon) in
      let d2 := upd_db_evals d1 (filter (fun row => negb (N.eqb (fst row) eon)) (db_evals d1)) in
      let res := compute_result C E P verify p' in
      let ok := is_result res in
      let step :=
        if ok then
          if existsb (N.eqb eon) (db_eonkeys d2) then TErr
          else TOk (upd_db_eonkeys d2 (db_eonkeys d2 ++ [eon]))
        else match nget (db_eons d2) eon with None => TErr | Some _ => TOk d2 end in
      bind step (fun d3 =>
        let d4 := schedule d3 None (MResult eon ok) in
        match nget (db_results d4) eon with
        | Some _ => TErr
        | None => TOk ((upd_db_results d4 (db_results d4 ++ [(eon, mkRes ok res)]), s1), a')
        end)
  end.

(* shiftPhase: at most four transitions *)
Fixpoint shift_loop (fuel : nat) (x : st) (height : Z) (eon : N) (a : active) : tx st :=
  match fuel with
  | O => TOk x
  | S fuel' =>
      let target := phase_at L height (a_start a) in
      let cur := p_phase (a_pure a) in
      if phase_ltb cur target then
        let r := match cur with
                 | Off => start1 x eon a
                 | Dealing => start2 x eon a
                 | Accusing => start3 x eon a
                 | Apologizing => finalize_dkg x eon a
                 | Finalized => TPanic
                 end in
        bind r (fun xa => shift_loop fuel' (fst xa) height eon (snd xa))
      else TOk x
  end.

Definition shift_phase (x : st) (height : Z) (eon : N) (a : active) : tx st := shift_loop 5 x height eon a.

(* shiftPhases: the keys are enumerated first; an entry removed meanwhile is skipped *)
Fixpoint shift_all (x : st) (height : Z) (l : list (N * active)) : tx st :=
  match l with
  | [] => TOk x
  | (eon, _) :: r =>
      match nget (sm_dkg (snd x)) eon with
      | None => shift_all x height r
      | Some a => bind (shift_phase x height eon a) (fun x' => shift_all x' height r)
      end
  end.

Definition shift_phases (x : st) (height : Z) : tx st := shift_all x height (enum (sm_dkg (snd x))).

(* ---- events ---- *)
Definition handle_check_in (x : st) (sender : addr) : tx st :=
  let '(d, s) := x in
  TOk (if existsb (bytes_eqb sender) (db_keys d) then d else upd_db_keys d (db_keys d ++ [sender]), s).

Definition handle_batch_config (x : st) (height : Z) (idx act thr : N) (keypers : list addr) (started : bool) : tx st :=
  let '(d, s) := x in
  let mem := is_member keypers me in
  let s1 := if mem then mkSm (sm_sync s) true (sm_dkg s) else s in
  let d1 := if mem then schedule d None MCheckIn else d in
  match nget (db_cfgs d1) idx with
  | Some _ => TErr
  | None =>
      let d2 := upd_db_cfgs d1 (db_cfgs d1 ++ [(idx, mkCfg height keypers thr started act)]) in
      TOk (delete_by_desc d2 (Some (act, idx)), s1)
  end.

Definition handle_batch_config_started (x : st) (idx : N) : tx st :=
  let '(d, s) := x in
  match nget (db_cfgs d) idx with
  | None => TOk x
  | Some c => TOk (upd_db_cfgs d (nset (db_cfgs d) idx (mkCfg (cf_height c) (cf_keypers c) (cf_threshold c) true (cf_act c))), s)
  end.

Definition handle_eon_started (x : st) (height : Z) (eon act idx : N) : tx st :=
  let '(d, s) := x in
  if (9223372036854775807 <? Z.of_N act) then TErr
  else match nget (db_eons d) eon with
  | Some _ => TErr
  | None =>
      let d1 := upd_db_eons d (db_eons d ++ [(eon, mkEon height act idx)]) in
      if negb (sm_iskeyper s) then TOk (d1, s)
      else match nget (db_cfgs d1) idx with
      | None => TErr
      | Some c =>
          match find_index (cf_keypers c) me 0 with
          | None => TOk (d1, s)
          | Some ki =>
              if phase_eqb (phase_at L (db_lch d1 + 1) height) Off then TPanic
              else
                let a := mkActive (new_pure eon (length (cf_keypers c)) (cf_threshold c) ki) height true (cf_keypers c) in
                shift_phase (d1, set_dkg s eon a) height eon a
          end
      end
  end.

Definition handle_commit_ev (x : st) (sender : addr) (eon : N) (c : C) : tx st :=
  let '(d, s) := x in
  match nget (sm_dkg s) eon with
  | None => TOk x
  | Some a =>
      match find_index (a_keypers a) sender 0 with
      | None => TOk x
      | Some si =>
          match handle_commit C E P deg_ok (a_pure a) eon si c with
          | HOk p' => TOk (d, set_dkg s eon (mark a p'))
          | HErr => TOk x
          | HPanic => TPanic
          end
      end
  end.

Definition handle_eval_ev (x : st) (sender : addr) (eon : N) (receivers : list addr) (vals : list (option E)) : tx st :=
  let '(d, s) := x in
  if bytes_eqb sender me then TOk x
  else match nget (sm_dkg s) eon with
  | None => TOk x
  | Some a =>
      match find_index (a_keypers a) sender 0 with
      | None => TOk x
      | Some si =>
          match find_index (a_keypers a) me 0 with
          | None => TErr
          | Some ki =>
              match find_index receivers me 0 with
              | None => TOk x
              | Some mi =>
                  match nth_error vals mi with
                  | None => TPanic
                  | Some None => TOk x
                  | Some (Some v) =>
                      match handle_eval C E P valid_eval (a_pure a) eon si ki v with
                      | HOk p' => TOk (d, set_dkg s eon (mark a p'))
                      | HErr => TOk x
                      | HPanic => TPanic
                      end
                  end
              end
          end
      end
  end.

Fixpoint accuse_all (p : pure) (keypers : list addr) (eon : N) (si : nat) (accused : list addr) : pure :=
  match accused with
  | [] => p
  | a :: r =>
      match find_index keypers a 0 with
      | None => accuse_all p keypers eon si r
      | Some ai =>
          match handle_accusation p eon si ai with
          | HOk p' => accuse_all p' keypers eon si r
          | _ => accuse_all p keypers eon si r
          end
      end
  end.

Definition handle_accusation_ev (x : st) (sender : addr) (eon : N) (accused : list addr) : tx st :=
  let '(d, s) := x in
  match nget (sm_dkg s) eon with
  | None => TOk x
  | Some a =>
      if negb (phase_eqb (p_phase (a_pure a)) Accusing) then TOk x
      else match find_index (a_keypers a) sender 0 with
      | None => TOk x
      | Some si => TOk (d, set_dkg s eon (mark a (accuse_all (a_pure a) (a_keypers a) eon si accused)))
      end
  end.

Fixpoint apologise_all (p : pure) (keypers : list addr) (eon : N) (si : nat) (accusers : list addr) (vals : list E)
  : option pure :=
  match accusers with
  | [] => Some p
  | a :: r =>
      match vals with
      | [] => match find_index keypers a 0 with
              | None => apologise_all p keypers eon si r []
              | Some _ => None                       (* e.PolyEval[j] out of range *)
              end
      | v :: vr =>
          match find_index keypers a 0 with
          | None => apologise_all p keypers eon si r vr
          | Some ai =>
              match handle_apology C E P valid_eval p eon ai si v with
              | HOk p' => apologise_all p' keypers eon si r vr
              | _ => apologise_all p keypers eon si r vr
              end
          end
      end
  end.

Definition handle_apology_ev (x : st) (sender : addr) (eon : N) (accusers : list addr) (vals : list E) : tx st :=
  let '(d, s) := x in
  match nget (sm_dkg s) eon with
  | None => TOk x
  | Some a =>
      if negb (phase_eqb (p_phase (a_pure a)) Apologizing) then TOk x
      else match find_index (a_keypers a) sender 0 with
      | None => TOk x
      | Some si =>
          match apologise_all (a_pure a) (a_keypers a) eon si accusers vals with
          | None => TPanic
          | Some p' => TOk (d, set_dkg s eon (mark a p'))
          end
      end
  end.

Definition handle_event (x : st) (height : Z) (e : dev) : tx st :=
  match e with
  | DCheckIn sender => handle_check_in x sender
  | DBatchConfig idx act thr ks started => handle_batch_config x height idx act thr ks started
  | DBatchConfigStarted idx => handle_batch_config_started x idx
  | DEonStarted eon act idx => handle_eon_started x height eon act idx
  | DCommit sender eon c => handle_commit_ev x sender eon c
  | DEval sender eon rs vs => handle_eval_ev x sender eon rs vs
  | DAccusation sender eon acc => handle_accusation_ev x sender eon acc
  | DApology sender eon acc vs => handle_apology_ev x sender eon acc vs
  end.

Fixpoint handle_events (x : st) (height : Z) (es : list dev) : tx st :=
  match es with
  | [] => TOk x
  | e :: r => bind (handle_event x height e) (fun x' => handle_events x' height r)
  end.

(* ---- BeforeSaveHook: sendPolyEvals ---- *)
Definition has_key (d : db) (a : addr) : bool := existsb (bytes_eqb a) (db_keys d).

Definition send_poly_evals (d : db) : db :=
  let ready := filter (fun row => has_key d (fst (snd row))) (db_evals d) in
  let eons := fold_right insert_sorted [] (map fst ready) in
  let d1 := fold_left (fun acc eon =>
                         let rows := filter (fun row => N.eqb (fst row) eon) ready in
                         schedule acc None (MEvals eon (map (fun row => fst (snd row)) rows) (map (fun row => snd (snd row)) rows)))
                      eons d in
  upd_db_evals d1 (filter (fun row => negb (has_key d (fst (snd row)))) (db_evals d1)).

(* ---- Save ---- *)
Fixpoint save_all (d : db) (l : list (N * active)) : db :=
  match l with
  | [] => d
  | (eon, a) :: r => save_all (if a_dirty a then upd_db_pure d (nset (db_pure d) eon (a_pure a)) else d) r
  end.

Definition clean (m : list (N * active)) : list (N * active) :=
  map (fun ea => (fst ea, mkActive (a_pure (snd ea)) (a_start (snd ea)) false (a_keypers (snd ea)))) m.

Definition save (x : st) : st :=
  let '(d, s) := x in
  (save_all d (enum (sm_dkg s)), mkSm (sm_sync s) (sm_iskeyper s) (clean (sm_dkg s))).

(* ---- handleBlock: the body of the per-block transaction ---- *)
Definition handle_block (x : st) (blk : Z * list dev) (lch : Z) : tx st :=
  let '(d, s) := x in
  bind (load d s) (fun s1 =>
    if negb (fst blk =? db_sync d + 1) then TErr
    else
      let d1 := upd_db_sync d (fst blk) lch blk in
      bind (shift_phases (d1, s1) (fst blk)) (fun x2 =>
        bind (handle_events x2 (fst blk) (snd blk)) (fun x3 =>
          TOk (save (send_poly_evals (fst x3), snd x3))))).

End Driver.

Arguments DCheckIn {C E}.
Arguments DBatchConfig {C E}.
Arguments DBatchConfigStarted {C E}.
Arguments DEonStarted {C E}.
Arguments DCommit {C E}.
Arguments DEval {C E}.
Arguments DAccusation {C E}.
Arguments DApology {C E}.
Arguments MCheckIn {C E}.
Arguments MVote {C E}.
Arguments MBlockSeen {C E}.
Arguments MCommit {C E}.
Arguments MEvals {C E}.
Arguments MAccusation {C E}.
Arguments MApology {C E}.
Arguments MResult {C E}.
Arguments mkActive {C E P}.
Arguments a_pure {C E P}.
Arguments a_start {C E P}.
Arguments a_dirty {C E P}.
Arguments a_keypers {C E P}.
Arguments mkSm {C E P}.
Arguments sm_sync {C E P}.
Arguments sm_iskeyper {C E P}.
Arguments sm_dkg {C E P}.
Arguments sm_fresh {C E P}.
Arguments db_init {C E P}.
