(* Model of app/powermap.go: DiffPowermaps, Powermap.ValidatorUpdates, and the reference
   Tendermint rule for applying a validator change set (written from
   tendermint/types/validator_set.go UpdateWithChangeSet: no duplicate keys in one change
   set, no negative power, a removal must hit a present validator, the result must not be
   empty).  Every `for k := range m` of the Go code takes the enumeration of the map as an
   explicit argument, so that theorems can quantify over every enumeration order. *)
From Coq Require Import List NArith ZArith Bool Lia Permutation.
From Verif Require Import Lib.Bytes Lib.Assoc Lib.Sorting.
Import ListNotations.
Open Scope Z_scope.

Definition powermap := amap Z.

Definition pget0 (m : powermap) (k : bytes) : Z :=
  match aget m k with Some p => p | None => 0 end.

(* first loop of DiffPowermaps, over an enumeration [oe] of the old map *)
Definition diff_remove (newpm : powermap) (oe : powermap) (res : powermap) : powermap :=
  fold_left (fun res kv => if amem newpm (fst kv) then res else aset res (fst kv) 0) oe res.

(* second loop, over an enumeration [ne] of the new map *)
Definition diff_update (oldpm : powermap) (ne : powermap) (res : powermap) : powermap :=
  fold_left (fun res kv => if Z.eqb (pget0 oldpm (fst kv)) (snd kv) then res else aset res (fst kv) (snd kv)) ne res.

Definition diff_powermaps_enum (oldpm newpm oe ne : powermap) : powermap :=
  diff_update oldpm ne (diff_remove newpm oe []).

Definition diff_powermaps (oldpm newpm : powermap) : powermap :=
  diff_powermaps_enum oldpm newpm oldpm newpm.

(* ValidatorUpdates: enumerate the map (any order), then sort by key bytes *)
Definition validator_updates_enum (e : powermap) : list (bytes * Z) := ksort e.
Definition validator_updates (m : powermap) : list (bytes * Z) := ksort m.

(* --- reference Tendermint application of a change set ------------------------------- *)

Fixpoint has_dup_keys (l : list (bytes * Z)) : bool :=
  match l with
  | [] => false
  | (k, _) :: r => amem r k || has_dup_keys r
  end.

Fixpoint apply_changes (vs : powermap) (ups : list (bytes * Z)) : option powermap :=
  match ups with
  | [] => Some vs
  | (k, p) :: r =>
      if p <? 0 then None
      else if p =? 0 then
        (if amem vs k then apply_changes (adel vs k) r else None)
      else apply_changes (aset vs k p) r
  end.

Definition apply_updates (vs : powermap) (ups : list (bytes * Z)) : option powermap :=
  if has_dup_keys ups then None
  else match apply_changes vs ups with
       | Some [] => match ups with [] => Some [] | _ => None end
       | r => r
       end.
