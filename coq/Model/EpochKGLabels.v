(* The label instance of Model/EpochKG.v: shares and keys are *labels* instead of group
   elements (DESIGN.md section 3, "executable models never compute group elements").
     LShare e i x   the epoch secret key share  f_e(i+1) * H1(x)  of keyper i of eon key set e
                    for identity x            (e = 0: the key set of the EpochKG under test)
     LKey e x       the epoch secret key        f_e(0) * H1(x)
     LOther         any other group element
   verify_l / combine_l state what the exponent model (Proofs/EpochKGAlgebra.v) proves about
   such values.  Corr/C01.v runs this instance against the real BLS code; the driver checks
   with the real pairing code that every key labelled LKey 0 x verifies against the eon
   public key and decrypts. *)
From Coq Require Import List NArith ZArith Bool.
From Verif Require Import Lib.Bytes.
Import ListNotations.
Open Scope N_scope.

Inductive lbl :=
| LShare (e : N) (i : N) (x : bytes)
| LKey (e : N) (x : bytes)
| LOther.

(* VerifyEpochSecretKeyShare(v, PublicKeyShares[s] of key set 0, ComputeEpochID(x)) *)
Definition verify_l (s : N) (x : bytes) (v : lbl) : bool :=
  match v with
  | LShare e i y => (e =? 0) && (i =? s) && bytes_eqb y x
  | _ => false
  end.

Fixpoint nodupb (l : list N) : bool :=
  match l with
  | [] => true
  | a :: r => negb (existsb (N.eqb a) r) && nodupb r
  end.

(* the Lagrange sum of (index, share) pairs: the key of key set e for x when every pair is
   the share of keyper `index` of e for x and the indices are pairwise distinct *)
Definition share_of (e : N) (x : bytes) (p : N * lbl) : bool :=
  match snd p with
  | LShare e' i y => (e' =? e) && (i =? fst p) && bytes_eqb y x
  | _ => false
  end.

Definition combine_l (l : list (N * lbl)) : lbl :=
  match l with
  | (_, LShare e _ x) :: _ =>
      if forallb (share_of e x) l && nodupb (map fst l) then LKey e x else LOther
  | _ => LOther
  end.
