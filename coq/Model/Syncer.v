(* Model of the contract-event syncers (C15):
     keyperimpl/shutterservice/registrysyncer.go        RegistrySyncer
     keyperimpl/shutterservice/multieventsyncer.go      MultiEventSyncer (+ eventtriggerregisteredprocessor.go)
     keyperimpl/gnosis/sequencersyncer.go               SequencerSyncer
     medley/syncranges.go                               GetSyncRanges
   Definitions only.  One generic [sync], parametrised by a [flavour] that records where the
   three implementations differ (first block, control flow of the multi-event syncer, whether
   syncRange swallows the transaction's error as the pinned tree did - D8).

   Integers: block numbers are [Z].  The Go code converts between uint64 / int64 / int
   (header.Number.Int64(), uint64(syncedUntil.BlockNumber + 1), int64(end), int(BlockNumber));
   all of these are the identity for 0 <= x < 2^63, which every theorem assumes of the head
   number.  GetSyncRanges does uint64 arithmetic that can wrap for any input; there the wrap is
   written out. *)
From Coq Require Import List NArith ZArith Bool Lia.
From Verif Require Import Lib.Bytes.
Import ListNotations.
Open Scope Z_scope.

(* ------------------------------------------------------------------------------------- *)
(* medley/syncranges.go

     func GetSyncRanges(start, end, maxRange uint64) [][2]uint64 {
         ranges := [][2]uint64{}
         for i := start; i <= end; i += maxRange {
             s := i
             e := i + maxRange - 1
             ranges = append(ranges, [2]uint64{s, e})
             if e > end { ranges[len(ranges)-1][1] = end; break }
         }
         return ranges
     }                                                                                      *)

Definition two64 : Z := 18446744073709551616.
Definition u64 (x : Z) : Z := x mod two64.

Inductive ranges_outcome :=
| RangesDone (rs : list (Z * Z))
| RangesOutOfFuel.          (* the Go loop does not terminate (or not within the fuel) *)

Fixpoint sync_ranges_loop (fuel : nat) (i e r : Z) : ranges_outcome :=
  match fuel with
  | O => RangesOutOfFuel
  | S f =>
      if i <=? e then
        let en := u64 (i + r - 1) in
        if en >? e then RangesDone [(i, e)]
        else match sync_ranges_loop f (u64 (i + r)) e r with
             | RangesDone rs => RangesDone ((i, en) :: rs)
             | RangesOutOfFuel => RangesOutOfFuel
             end
      else RangesDone []
  end.

(* enough fuel for every terminating run with end + maxRange < 2^64 *)
Definition sync_ranges_fuel (s e r : Z) : nat := Z.to_nat ((e - s) / r) + 2.

Definition get_sync_ranges (s e r : Z) : ranges_outcome :=
  sync_ranges_loop (sync_ranges_fuel s e r) s e r.

(* what the ranges should be: a contiguous, gap-free cover of [s, e] by pieces of at most r blocks *)
Fixpoint ranges_cover (s e r : Z) (rs : list (Z * Z)) : Prop :=
  match rs with
  | [] => e < s
  | (a, b) :: rest => a = s /\ s <= b /\ b <= e /\ b - a < r /\ (rest = [] -> b = e) /\
                      (rest <> [] -> b - a = r - 1) /\
                      match rest with [] => True | _ => ranges_cover (b + 1) e r rest end
  end.

(* ------------------------------------------------------------------------------------- *)
(* faults: every database operation (a stand-alone query or one whole BeginFunc transaction)
   and every RPC call takes the next entry of its stream; an exhausted stream means no fault. *)

Inductive fault :=
| NoFault
| Fail          (* the call returns an error; a transaction is not applied *)
| FailApplied.  (* a transaction: the commit is applied but the caller sees an error
                   (connection lost after commit); for other calls the same as Fail *)

Definition pop (fs : list fault) : fault * list fault :=
  match fs with [] => (NoFault, []) | f :: r => (f, r) end.

Definition is_fail (f : fault) : bool := match f with NoFault => false | _ => true end.

Inductive result := Ok | Err | OutOfFuel.

(* ------------------------------------------------------------------------------------- *)

Section Syncer.
  Variable E : Type.                 (* decoded event payload *)

  (* an event with its position: the columns block_number, block_hash, tx_index, log_index *)
  Record pev := mkpev { pe_block : Z; pe_bhash : bytes; pe_tx : Z; pe_log : Z; pe_ev : E }.

  Variable K : Type.                 (* conflict target of the INSERT ... ON CONFLICT *)
  Variable key : E -> K.
  Variable key_eqb : K -> K -> bool.
  Variable admissible : E -> bool.   (* filterEvents / the skips of ProcessEvents *)
  Variable merge : pev -> pev -> pev. (* DO UPDATE SET ...: stored row, proposed row -> new stored row *)

  (* INSERT ... ON CONFLICT (key) DO UPDATE: rows in insertion order, updated in place *)
  Fixpoint upsert (rows : list pev) (p : pev) : list pev :=
    match rows with
    | [] => [p]
    | r :: rs => if key_eqb (key (pe_ev r)) (key (pe_ev p)) then merge r p :: rs else r :: upsert rs p
    end.

  (* the *_synced_until / multi_event_sync_status row and the event table *)
  Record state := mkstate { st_status : option (Z * bytes); st_rows : list pev }.

  Definition init_state : state := mkstate None [].

  (* what one Sync call can learn from the execution node.  The node does not reorganise during
     one call (DESIGN.md C15 L). *)
  Record node := mknode {
    n_number : Z;                    (* header.Number of the header passed to Sync *)
    n_parent : bytes;                (* header.ParentHash *)
    n_hash : Z -> option bytes;      (* HeaderByNumber(k).Hash(); None = not found *)
    n_logs : Z -> Z -> list pev      (* FilterLogs(start, end), decoded, in log order *)
  }.

  Record flavour := mkflavour {
    fl_first_start : Z;   (* first block fetched when there is no status row:
                             SyncStartBlockNumber (registry, sequencer), SyncStartBlockNumber + 1 (multi) *)
    fl_depth : Z;         (* AssumedReorgDepth *)
    fl_range : Z;         (* maxRequestBlockRange / MaxRequestBlockRange *)
    fl_multi : bool;      (* control flow of MultiEventSyncer (true) or of the two single syncers *)
    fl_swallow : bool;    (* syncRange drops the error of its transaction (pinned tree, D8) *)
    fl_unclamped : bool   (* a sync may start below the first block (pinned tree, D9: after a rollback to a
                             block before the sync start the resync began at that block + 1) *)
  }.

  (* the first block of the next range: the block after the position, but never a block before the
     configured start (`if start < s.SyncStartBlockNumber { start = s.SyncStartBlockNumber }` in the
     two single syncers, `getSyncedUntil` never reporting less than SyncStartBlockNumber in the
     multi-event syncer) *)
  Definition start_after (fl : flavour) (status : option (Z * bytes)) : Z :=
    match status with
    | None => fl_first_start fl
    | Some (k, _) => if fl_unclamped fl then k + 1 else Z.max (k + 1) (fl_first_start fl)
    end.

  (* getNumReorgedBlocks / calculateReorgDepth *)
  Definition num_reorged (fl : flavour) (k : Z) (h : bytes) (nd : node) : Z :=
    let should_be_parent := n_number nd =? k + 1 in
    let is_parent := bytes_eqb (n_parent nd) h in
    if should_be_parent && negb is_parent then
      (if k <? fl_depth fl then k else fl_depth fl)
    else 0.

  (* resetSyncStatus / rollback: DELETE ... WHERE block_number >= to + 1; status := (to, empty hash) *)
  Definition rollback_to (st : state) (to : Z) : state :=
    mkstate (Some (to, [])) (filter (fun r => pe_block r <? to + 1) (st_rows st)).

  (* handlePotentialReorg.  Returns the state, the rest of the database fault stream, whether an
     error is returned, and the persistent states written. *)
  Definition reorg_phase (fl : flavour) (nd : node) (st : state) (db : list fault)
    : state * list fault * bool * list state :=
    let '(f1, db) := pop db in                      (* Get...SyncedUntil / getSyncStatus *)
    if is_fail f1 then (st, db, true, []) else
    match st_status st with
    | None => (st, db, false, [])                   (* pgx.ErrNoRows: nothing synced yet *)
    | Some (k, h) =>
        let n := num_reorged fl k h nd in
        if n <=? 0 then (st, db, false, []) else
        (* MultiEventSyncer.rollback reads the status once more outside the transaction *)
        let '(f2, db) := if fl_multi fl then pop db else (NoFault, db) in
        if is_fail f2 then (st, db, true, []) else
        let '(f3, db) := pop db in                  (* the BeginFunc transaction *)
        let st' := rollback_to st (k - n) in
        match f3 with
        | NoFault => (st', db, false, [st'])
        | Fail => (st, db, true, [])
        | FailApplied => (st', db, true, [st'])
        end
    end.

  (* one range: fetch logs and the header of [e] (in the order of the flavour), then one
     transaction {upsert the admissible events; status := (e, hash)} *)
  Definition commit_range (nd : node) (st : state) (s e : Z) (h : bytes) : state :=
    mkstate (Some (e, h))
            (fold_left upsert (filter (fun p => admissible (pe_ev p)) (n_logs nd s e)) (st_rows st)).

  Fixpoint range_loop (fl : flavour) (nd : node) (st : state) (rs : list (Z * Z))
           (rpc db : list fault) : state * result * list state :=
    match rs with
    | [] => (st, Ok, [])
    | (s, e) :: rest =>
        let '(fa, rpc) := pop rpc in                (* single: FilterLogs; multi: HeaderByNumber *)
        if is_fail fa then (st, Err, []) else
        let '(fb, rpc) := pop rpc in                (* single: HeaderByNumber; multi: FilterLogs *)
        if is_fail fb then (st, Err, []) else
        match n_hash nd e with
        | None => (st, Err, [])                     (* ethereum.NotFound *)
        | Some h =>
            let st' := commit_range nd st s e h in
            let '(fc, db) := pop db in              (* the BeginFunc transaction *)
            match fc with
            | NoFault =>
                let '(st2, r, tr) := range_loop fl nd st' rest rpc db in (st2, r, st' :: tr)
            | Fail =>
                if fl_swallow fl then range_loop fl nd st rest rpc db else (st, Err, [])
            | FailApplied =>
                if fl_swallow fl
                then let '(st2, r, tr) := range_loop fl nd st' rest rpc db in (st2, r, st' :: tr)
                else (st', Err, [st'])
            end
        end
    end.

  (* Sync(ctx, header) *)
  Definition sync (fl : flavour) (nd : node) (st : state) (rpc db : list fault)
    : state * result * list state :=
    let '(st1, db, failed, tr1) := reorg_phase fl nd st db in
    if failed then (st1, Err, tr1) else
    let '(f, db) := pop db in                       (* Get...SyncedUntil / getSyncedUntil *)
    if is_fail f then (st1, Err, tr1) else
    let start := start_after fl (st_status st1) in
    let e := n_number nd in
    if fl_multi fl && (start >? e) then (st1, Ok, tr1) else
    match get_sync_ranges start e (fl_range fl) with
    | RangesOutOfFuel => (st1, OutOfFuel, tr1)
    | RangesDone rs =>
        let '(st2, r, tr2) := range_loop fl nd st1 rs rpc db in (st2, r, tr1 ++ tr2)
    end.

  (* ----------------------------------------------------------------------------------- *)
  (* chain views: a view is the branch from genesis (index 0) to the current head; the parent
     hash of block n+1 is the hash of block n by construction *)

  Record blk := mkblk { bk_hash : bytes; bk_events : list (Z * Z * E) }.  (* (tx index, log index, payload) *)
  Definition view := list blk.

  Definition block_pevs (n : Z) (b : blk) : list pev :=
    map (fun x => mkpev n (bk_hash b) (fst (fst x)) (snd (fst x)) (snd x)) (bk_events b).

  Definition block_at (v : view) (n : Z) : option blk :=
    if n <? 0 then None else nth_error v (Z.to_nat n).

  Definition pevs_at (v : view) (n : Z) : list pev :=
    match block_at v n with Some b => block_pevs n b | None => [] end.

  Fixpoint zrange_n (s : Z) (n : nat) : list Z :=
    match n with O => [] | S n' => s :: zrange_n (s + 1) n' end.
  Definition zrange (s e : Z) : list Z := zrange_n s (Z.to_nat (e - s + 1)).   (* s, s+1, ..., e *)

  Definition logs_of (v : view) (s e : Z) : list pev := flat_map (pevs_at v) (zrange s e).

  Definition hash_at (v : view) (n : Z) : option bytes := option_map bk_hash (block_at v n).

  Definition head_number (v : view) : Z := Z.of_nat (length v) - 1.

  Definition zero_hash : bytes := repeat 0%N 32.

  Definition node_of_view (v : view) : node :=
    mknode (head_number v)
           (match hash_at v (head_number v - 1) with Some h => h | None => zero_hash end)
           (hash_at v)
           (logs_of v).

  (* the canonical chain's admissible events from block a up to block k, as rows *)
  Definition rows_of (v : view) (a k : Z) : list pev :=
    filter (fun p => admissible (pe_ev p)) (logs_of v a k).

  (* ----------------------------------------------------------------------------------- *)
  (* vocabulary of the C15 theorems *)

  (* two views have the same blocks 0..k *)
  Definition agree_upto (v w : view) (k : Z) : Prop :=
    forall n, 0 <= n <= k -> block_at v n = block_at w n.

  (* A block hash identifies the block and all its ancestors (the header hash covers the parent
     hash and, through the receipts root, the logs) ... *)
  Definition hash_determines (v w : view) : Prop :=
    forall n bv bw, block_at v n = Some bv -> block_at w n = Some bw ->
                    bk_hash bv = bk_hash bw -> agree_upto v w n.
  (* ... and is never the empty byte string (which a rollback writes as the status hash) *)
  Definition hashes_nonempty (v : view) : Prop := forall b, In b v -> bk_hash b <> [].

  (* contract invariant: on one branch a key is registered at most once *)
  Definition keys_unique (v : view) : Prop :=
    NoDup (map (fun p => key (pe_ev p)) (rows_of v 0 (head_number v))).

  (* no admissible event in a block below a (the exclusion of D9) *)
  Definition quiet_before (v : view) (a : Z) : Prop := rows_of v 0 (a - 1) = [].

  (* the start of the next range *)
  Definition next_start (fl : flavour) (st : state) : Z := start_after fl (st_status st).

  (* a history: each Sync call sees a view (the node's canonical branch, whose last block is the
     header passed to Sync) and two fault streams.  The ghost component remembers the view of
     the last Sync that wrote to the database. *)
  Record gstate := mkg { g_st : state; g_view : view }.
  Definition sync_input : Type := view * (list fault * list fault).

  Definition gstep (fl : flavour) (g : gstate) (inp : sync_input) : gstate :=
    let '(st', _, tr) := sync fl (node_of_view (fst inp)) (g_st g) (fst (snd inp)) (snd (snd inp)) in
    mkg st' (match tr with [] => g_view g | _ => fst inp end).

  Definition ginit : gstate := mkg init_state [].
  Definition grun (fl : flavour) (inputs : list sync_input) : gstate := fold_left (gstep fl) inputs ginit.

  (* The property's assumption on the next observed head, relative to the recorded position k
     (whether its hash is known or, after a rollback whose resync has not completed yet, empty):
     the new view agrees with the synced one on everything at least the assumed reorg depth below
     the position, and if it departs from the synced chain at or below the position then its head
     is at most one past the position. *)
  Definition head_ok (fl : flavour) (g : gstate) (v : view) : Prop :=
    match st_status (g_st g) with
    | None => True
    | Some (k, h) =>
        agree_upto (g_view g) v (Z.max 0 (k - fl_depth fl)) /\
        (head_number v <= k + 1 \/ agree_upto (g_view g) v k)
    end.

  Fixpoint heads_ok (fl : flavour) (g : gstate) (inputs : list sync_input) : Prop :=
    match inputs with
    | [] => True
    | inp :: rest => head_ok fl g (fst inp) /\ heads_ok fl (gstep fl g inp) rest
    end.

  Definition view_ok (fl : flavour) (v : view) : Prop :=
    v <> [] /\ hashes_nonempty v /\ keys_unique v /\ head_number v + fl_range fl < 9223372036854775808.

  Definition universe_ok (fl : flavour) (vs : list view) : Prop :=
    (forall v, In v vs -> view_ok fl v) /\
    (forall v w, In v vs -> In w vs -> hash_determines v w).

  (* one database transition of a Sync: the commit of a range (status and exactly the admissible
     events of that range, together) or a rollback (status and the deletions, together) *)
  Definition justified (fl : flavour) (nd : node) (a b : state) : Prop :=
    (exists s e h, n_hash nd e = Some h /\ b = commit_range nd a s e h /\
                   (fl_swallow fl = false -> s = next_start fl a)) \/
    (exists k h n, st_status a = Some (k, h) /\ 0 < n /\ b = rollback_to a (k - n)).

  Fixpoint chain_justified (fl : flavour) (nd : node) (a : state) (tr : list state) : Prop :=
    match tr with
    | [] => True
    | b :: rest => justified fl nd a b /\ chain_justified fl nd b rest
    end.

End Syncer.

Arguments mkpev {E}.
Arguments pe_block {E}. Arguments pe_bhash {E}. Arguments pe_tx {E}. Arguments pe_log {E}. Arguments pe_ev {E}.
Arguments mkstate {E}. Arguments st_status {E}. Arguments st_rows {E}. Arguments init_state {E}.
Arguments mknode {E}. Arguments n_number {E}. Arguments n_parent {E}. Arguments n_hash {E}. Arguments n_logs {E}.
Arguments mkblk {E}. Arguments bk_hash {E}. Arguments bk_events {E}.
Arguments upsert {E K}. Arguments num_reorged {E}. Arguments rollback_to {E}.
Arguments reorg_phase {E}. Arguments commit_range {E K}. Arguments range_loop {E K}. Arguments sync {E K}.
Arguments block_pevs {E}. Arguments block_at {E}. Arguments pevs_at {E}. Arguments logs_of {E}.
Arguments hash_at {E}. Arguments head_number {E}. Arguments node_of_view {E}. Arguments rows_of {E}.
Arguments agree_upto {E}. Arguments hash_determines {E}. Arguments hashes_nonempty {E}.
Arguments keys_unique {E K}. Arguments quiet_before {E}. Arguments next_start {E}.
Arguments mkg {E}. Arguments g_st {E}. Arguments g_view {E}. Arguments ginit {E}.
Arguments gstep {E K}. Arguments grun {E K}. Arguments head_ok {E}. Arguments heads_ok {E K}.
Arguments view_ok {E K}. Arguments universe_ok {E K}. Arguments justified {E K}. Arguments chain_justified {E K}.

(* ------------------------------------------------------------------------------------- *)
(* the three instances.  One payload record serves all three tables; unused fields are 0 / []. *)

Definition max_int64 : Z := 9223372036854775807.
Definition to_i64 (x : Z) : Z :=   (* int64(x) of a uint64 x *)
  let y := x mod two64 in if y <=? max_int64 then y else y - two64.

Record uev := mkuev {
  ev_eon : Z;            (* uint64 *)
  ev_prefix : bytes;     (* bytes32 identityPrefix *)
  ev_sender : bytes;     (* address *)
  ev_timestamp : Z;      (* IdentityRegistered: uint64 timestamp *)
  ev_definition : bytes; (* EventTriggerRegistered: triggerDefinition *)
  ev_def_valid : bool;   (*   EventTriggerDefinition.UnmarshalBytes succeeds (C17) *)
  ev_expiry : Z;         (*   uint64 expirationBlockNumber *)
  ev_index : Z;          (* TransactionSubmitted: uint64 txIndex *)
  ev_gas : Z             (*   uint256 gasLimit *)
}.

Inductive ukey :=
| KRegistry (prefix sender : bytes)                    (* PRIMARY KEY (identity_prefix, sender) *)
| KTrigger (eon : Z) (prefix sender definition : bytes) (* (eon, identity), identity = keccak(prefix, sender, definition) *)
| KSequencer (index eon : Z).                          (* PRIMARY KEY (index, eon) *)

Definition ukey_eqb (a b : ukey) : bool :=
  match a, b with
  | KRegistry p s, KRegistry p' s' => bytes_eqb p p' && bytes_eqb s s'
  | KTrigger e p s d, KTrigger e' p' s' d' => (e =? e') && bytes_eqb p p' && bytes_eqb s s' && bytes_eqb d d'
  | KSequencer i e, KSequencer i' e' => (i =? i') && (e =? e')
  | _, _ => false
  end.

(* registry: filterEvents drops eon > MaxInt64; the upsert does not touch eon *)
Definition registry_key (e : uev) := KRegistry (ev_prefix e) (ev_sender e).
Definition registry_admissible (e : uev) := ev_eon e <=? max_int64.
Definition registry_merge (old new : pev uev) : pev uev :=
  let n := pe_ev new in
  mkpev (pe_block new) (pe_bhash new) (pe_tx new) (pe_log new)
        (mkuev (ev_eon (pe_ev old)) (ev_prefix n) (ev_sender n) (ev_timestamp n) (ev_definition n)
               (ev_def_valid n) (ev_expiry n) (ev_index n) (ev_gas n)).

(* event trigger registrations: ProcessEvents skips eon / expiry > MaxInt64 and invalid definitions *)
Definition trigger_key (e : uev) := KTrigger (ev_eon e) (ev_prefix e) (ev_sender e) (ev_definition e).
Definition trigger_admissible (e : uev) :=
  (ev_eon e <=? max_int64) && (ev_expiry e <=? max_int64) && ev_def_valid e.
Definition trigger_merge (old new : pev uev) : pev uev := new.

(* sequencer: filterEvents drops eon > MaxInt64 and gas limits that are not int64 *)
Definition sequencer_key (e : uev) := KSequencer (ev_index e) (ev_eon e).
Definition sequencer_admissible (e : uev) := (ev_eon e <=? max_int64) && (ev_gas e <=? max_int64).
Definition sequencer_merge (old new : pev uev) : pev uev := new.

Definition registry_flavour (sync_start depth range : Z) (legacy : bool) : flavour :=
  mkflavour sync_start depth range false legacy false.
Definition multi_flavour (sync_start depth range : Z) : flavour :=
  mkflavour (sync_start + 1) depth range true false false.
Definition sequencer_flavour (sync_start depth range : Z) (legacy : bool) : flavour :=
  mkflavour sync_start depth range false legacy false.

(* the syncers as they were before the D9 fixes: the start of a sync was not clamped *)
Definition legacy_unclamped_registry_flavour (sync_start depth range : Z) : flavour :=
  mkflavour sync_start depth range false false true.
Definition legacy_unclamped_multi_flavour (sync_start depth range : Z) : flavour :=
  mkflavour (sync_start + 1) depth range true false true.
Definition legacy_unclamped_sequencer_flavour (sync_start depth range : Z) : flavour :=
  mkflavour sync_start depth range false false true.

(* the two syncers as they were on the pinned tree (D8): syncRange ignored the error of its transaction *)
Definition legacy_registry_flavour (sync_start depth range : Z) : flavour := registry_flavour sync_start depth range true.
Definition legacy_sequencer_flavour (sync_start depth range : Z) : flavour := sequencer_flavour sync_start depth range true.

Definition registry_sync := sync registry_key ukey_eqb registry_admissible registry_merge.
Definition trigger_sync := sync trigger_key ukey_eqb trigger_admissible trigger_merge.
Definition sequencer_sync := sync sequencer_key ukey_eqb sequencer_admissible sequencer_merge.
