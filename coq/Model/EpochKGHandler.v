(* Model of keyper/epochkghandler/keyshare.go: DecryptionKeyShareHandler.HandleMessage and
   aggregateDecryptionKeySharesFromDB, over a relational reading of the statements
     InsertDecryptionKeyShare   (ON CONFLICT DO NOTHING, pk (eon, epoch_id, keyper_index))
     SelectDecryptionKeyShares  (WHERE eon = $1 AND epoch_id = $2, no ORDER BY)
     ExistsDecryptionKey        (WHERE eon = $1 AND epoch_id = $2)
     InsertDecryptionKey        (ON CONFLICT DO NOTHING, pk (eon, epoch_id))
     GetDKGResultForKeyperConfigIndex.
   SelectDecryptionKeyShares has no ORDER BY: the order in which the selected rows are handed
   to the fresh EpochKG is an explicit enumeration oracle [oracle i rows] (i = position of the
   identity in the message); theorems quantify over every oracle that permutes its argument.

   [R] is the stored (encoded) share, [decode] is shdb.DecodeEpochSecretKeyShare; the key
   table and the outgoing message carry the key itself ([Marshal] is injective).
   Integers: msg.Eon / msg.KeyperIndex are uint64 (N), columns are int64 (Z); the casts
   int64(uint64) and uint64(int64) are written out. *)
From Coq Require Import List NArith ZArith Bool Lia.
From Verif Require Import Lib.Bytes Lib.Assoc Model.EpochKG.
Import ListNotations.
Open Scope Z_scope.

Definition i64_of_u64 (u : N) : Z :=
  let z := Z.of_N u mod 2 ^ 64 in if z <? 2 ^ 63 then z else z - 2 ^ 64.
Definition u64_of_i64 (z : Z) : N := Z.to_N (z mod 2 ^ 64).
Definition max_int64 : Z := 2 ^ 63 - 1.

Section Handler.
  Variable V R : Type.
  Variable verify : N -> bytes -> V -> bool.
  Variable combine : list (N * V) -> V.
  Variable decode : R -> option V.

  Record share_row := mkShareRow { r_eon : Z; r_ident : bytes; r_kidx : Z; r_share : R }.
  Record key_row := mkKeyRow { k_eon : Z; k_ident : bytes; k_key : V }.

  (* dkg_result row reached through GetDKGResultForKeyperConfigIndex *)
  Inductive dkg_row :=
  | DkgFailed                  (* success = false *)
  | DkgUndecodable             (* shdb.DecodePureDKGResult fails *)
  | DkgResult (n t : N).       (* len(PublicKeyShares), Threshold of the decoded puredkg.Result *)

  Record db := mkDb {
    share_tbl : list share_row;
    key_tbl : list key_row;
    dkg_tbl : list (Z * dkg_row)
  }.

  (* p2pmsg.DecryptionKeyShares *)
  Record msg := mkMsg { m_eon : N; m_kidx : N; m_shares : list (bytes * R) }.

  Definition same_share_pk (a b : share_row) : bool :=
    (r_eon a =? r_eon b) && bytes_eqb (r_ident a) (r_ident b) && (r_kidx a =? r_kidx b).

  (* InsertDecryptionKeyShare ... ON CONFLICT DO NOTHING *)
  Definition insert_share (tbl : list share_row) (r : share_row) : list share_row :=
    if existsb (same_share_pk r) tbl then tbl else tbl ++ [r].

  (* SelectDecryptionKeyShares, in table order (the oracle re-orders) *)
  Definition select_shares (tbl : list share_row) (eon : Z) (x : bytes) : list share_row :=
    filter (fun r => (r_eon r =? eon) && bytes_eqb (r_ident r) x) tbl.

  Definition exists_key (tbl : list key_row) (eon : Z) (x : bytes) : bool :=
    existsb (fun k => (k_eon k =? eon) && bytes_eqb (k_ident k) x) tbl.

  (* InsertDecryptionKey ... ON CONFLICT DO NOTHING *)
  Definition insert_key (tbl : list key_row) (k : key_row) : list key_row :=
    if exists_key tbl (k_eon k) (k_ident k) then tbl else tbl ++ [k].

  Fixpoint dkg_lookup (tbl : list (Z * dkg_row)) (eon : Z) : option dkg_row :=
    match tbl with
    | [] => None
    | (e, r) :: rest => if e =? eon then Some r else dkg_lookup rest eon
    end.

  Inductive herr :=
  | EEonOverflow        (* medley.Uint64ToInt64Safe *)
  | ENoDkgResult        (* "failed to get dkg result for eon" (pgx.ErrNoRows) *)
  | EDkgDecode          (* DecodePureDKGResult *)
  | EEnoughSharesNoKey. (* "failed to generate decryption key ... even though we have enough shares" *)

  Inductive hout :=
  | HNone                             (* return nil, nil *)
  | HKeys (ks : list (bytes * V))     (* one DecryptionKeys message with these keys *)
  | HErr (e : herr)
  | HPanic.

  (* the loop of aggregateDecryptionKeySharesFromDB over the rows in the order given; None =
     panic inside HandleEpochSecretKeyShare (there is no recover) *)
  Fixpoint aggregate_rows (n t : N) (st : state V) (rows : list share_row) : option (state V) :=
    match rows with
    | [] => Some st
    | r :: rest =>
        match decode (r_share r) with
        | None => aggregate_rows n t st rest                     (* "invalid decryption key share in DB": continue *)
        | Some v =>
            match handle_share V verify combine n t st (mkShare (r_ident r) (u64_of_i64 (r_kidx r)) v) with
            | (_, Panic) => None
            | (st', _) => aggregate_rows n t st' rest             (* error or not: continue *)
            end
        end
    end.

  Definition oracle := nat -> list share_row -> list share_row.

  Inductive loop_result :=
  | LDone (ks : list (bytes * V))
  | LNone
  | LErr (e : herr)
  | LPanic.

  (* the "aggregate epoch secret keys" loop of HandleMessage *)
  Fixpoint aggregate_loop (o : oracle) (n t : N) (tbl : list share_row) (eon : Z) (i : nat)
           (shares : list (bytes * R)) (acc : list (bytes * V)) : loop_result :=
    match shares with
    | [] => LDone acc
    | (x, _) :: rest =>
        match aggregate_rows n t init (o i (select_shares tbl eon x)) with
        | None => LPanic
        | Some kg =>
            match key_of kg x with
            | None =>
                (* numShares := uint64(len(epochKG.SecretShares)) : the number of map entries *)
                if (N.of_nat (length (pending kg)) <? t)%N then LNone else LErr EEnoughSharesNoKey
            | Some None => LPanic     (* decryptionKey.Marshal() on a nil *EpochSecretKey *)
            | Some (Some k) => aggregate_loop o n t tbl eon (S i) rest (acc ++ [(x, k)])
            end
        end
    end.

  Definition insert_share_rows (d : db) (m : msg) : list share_row :=
    fold_left (fun tbl s => insert_share tbl
                 (mkShareRow (i64_of_u64 (m_eon m)) (fst s) (i64_of_u64 (m_kidx m)) (snd s)))
              (m_shares m) (share_tbl d).

  Definition insert_key_rows (tbl : list key_row) (eon : Z) (ks : list (bytes * V)) : list key_row :=
    fold_left (fun tbl k => insert_key tbl (mkKeyRow eon (fst k) (snd k))) ks tbl.

  Definition handle_message (o : oracle) (d : db) (m : msg) : db * hout :=
    let stbl := insert_share_rows d m in
    let d1 := mkDb stbl (key_tbl d) (dkg_tbl d) in
    if Z.of_N (m_eon m) >? max_int64 then (d1, HErr EEonOverflow)
    else
      let eon := i64_of_u64 (m_eon m) in
      if forallb (fun s => exists_key (key_tbl d) eon (fst s)) (m_shares m) then (d1, HNone)
      else
        match dkg_lookup (dkg_tbl d) eon with
        | None => (d1, HErr ENoDkgResult)
        | Some DkgFailed => (d1, HNone)
        | Some DkgUndecodable => (d1, HErr EDkgDecode)
        | Some (DkgResult n t) =>
            match aggregate_loop o n t stbl eon 0 (m_shares m) [] with
            | LNone => (d1, HNone)
            | LErr e => (d1, HErr e)
            | LPanic => (d1, HPanic)
            | LDone ks => (mkDb stbl (insert_key_rows (key_tbl d) eon ks) (dkg_tbl d), HKeys ks)
            end
        end.
End Handler.

Arguments r_eon {R}.
Arguments r_ident {R}.
Arguments r_kidx {R}.
Arguments r_share {R}.
Arguments mkShareRow {R}.
Arguments k_eon {V}.
Arguments k_ident {V}.
Arguments k_key {V}.
Arguments mkKeyRow {V}.
Arguments share_tbl {V R}.
Arguments key_tbl {V R}.
Arguments dkg_tbl {V R}.
Arguments mkDb {V R}.
Arguments m_eon {R}.
Arguments m_kidx {R}.
Arguments m_shares {R}.
Arguments mkMsg {R}.
Arguments HNone {V}.
Arguments HKeys {V}.
Arguments HErr {V}.
Arguments HPanic {V}.
Arguments LDone {V}.
Arguments LNone {V}.
Arguments LErr {V}.
Arguments LPanic {V}.
Arguments insert_share {R}.
Arguments select_shares {R}.
Arguments exists_key {V}.
Arguments insert_key {V}.
Arguments insert_share_rows {V R}.
Arguments insert_key_rows {V}.
