(* C04 / C05 - the remaining message types and node flavours, the envelope layer, the per-topic
   validator lists of every node flavour and the combined validator.

   Transcribed from
     keyper/epochkghandler/eonpublickey.go     EonPublicKeyHandler
     keyperimpl/snapshot/trigger.go            DecryptionTriggerHandler (snapshot keyper)
     chainobserver/db/collator  GetChainCollator
     p2pmsg/signing.go                         VerifySignature / RecoverAddress
     keyperimpl/primev/handler.go              PrimevCommitmentHandler, getBidderNodeAddress
     gnosisaccessnode/decryptionkeyshandler.go (validation = Model/KeysSig.v an_validate)
     p2pmsg/messages.go  Unmarshal, Validate;  p2p/message.go  UnmarshalPubsubMessage
     p2p/messaging.go    addValidatorImpl, GetCombinedValidator, AddMessageHandler, Handle
     keyper/keyper.go, keyperimpl/{gnosis,shutterservice,primev,snapshot}/keyper.go,
     gnosisaccessnode/node.go                  the order in which handlers are registered
   Definitions only. *)
From Coq Require Import List NArith ZArith Bool Lia.
From Verif Require Import Lib.Bytes Model.EpochKG Model.EpochKGLabels Model.EpochKGHandler.
From Verif Require Export Model.Gossip.
Import ListNotations.

(* ------------------------------------------------------------------------------------- *)
(* Messages *)

(* EonPublicKey: only the instance id is read *)
Record eonpk_msg := mkEonPK { e_inst : N }.

(* the signature of a DecryptionTrigger, relative to the message's own Hash():
   made by address a over that hash | crypto.SigToPub fails | recovers to an address nobody
   holds (also: a signature over another hash) *)
Inductive tsig := TsBy (a : N) | TsMalformed | TsStray.

Record trigger_msg := mkTrigger { t_inst : N; t_block : N; t_sig : tsig }.

(* Commitment: what validation and the panic site of the handler read.
   cm_siglen = len(common.FromHex(ReceivedBidSignature)) *)
Record commit_msg := mkCommit { cm_inst : N; cm_nids : nat; cm_ntxs : nat; cm_siglen : nat }.

Inductive gmsg :=
| MShares (m : shares_msg)
| MKeys (m : keys_msg)
| MEonPK (m : eonpk_msg)
| MTrigger (m : trigger_msg)
| MCommit (m : commit_msg).

Inductive mtype := TShares | TKeys | TEonPK | TTrigger | TCommit.

Definition type_of (m : gmsg) : mtype :=
  match m with
  | MShares _ => TShares | MKeys _ => TKeys | MEonPK _ => TEonPK
  | MTrigger _ => TTrigger | MCommit _ => TCommit
  end.

Definition mtype_eqb (a b : mtype) : bool :=
  match a, b with
  | TShares, TShares | TKeys, TKeys | TEonPK, TEonPK | TTrigger, TTrigger | TCommit, TCommit => true
  | _, _ => false
  end.

(* kprtopics; TpOther: any other topic string *)
Inductive topic := TpShares | TpKeys | TpEonPK | TpTrigger | TpCommit | TpOther.

Definition topic_eqb (a b : topic) : bool :=
  match a, b with
  | TpShares, TpShares | TpKeys, TpKeys | TpEonPK, TpEonPK | TpTrigger, TpTrigger
  | TpCommit, TpCommit | TpOther, TpOther => true
  | _, _ => false
  end.

(* Message.Topic() *)
Definition topic_of_type (t : mtype) : topic :=
  match t with
  | TShares => TpShares | TKeys => TpKeys | TEonPK => TpEonPK
  | TTrigger => TpTrigger | TCommit => TpCommit
  end.

(* ------------------------------------------------------------------------------------- *)
(* The envelope (protobuf is an oracle: the driver reports what the decoder produced) *)

Inductive payload :=
| PNone              (* Envelope.Message is nil / names no registered type / does not decode /
                        decodes to something that is not a p2pmsg.Message *)
| PMsg (m : gmsg).

Inductive wire :=
| WGarbage                                 (* proto.Unmarshal into Envelope fails *)
| WEnv (version : bytes) (p : payload).

(* p2pmsg.EnvelopeVersion = "0.0.1" *)
Definition envelope_version : bytes := [48; 46; 48; 46; 49]%N.

(* Message.Validate(): every share / key decodes; nil for the other types *)
Definition msg_validate (m : gmsg) : bool :=
  match m with
  | MShares s => forallb (fun p => match kv_lbl (snd p) with Some _ => true | None => false end) (s_shares s)
  | MKeys k => forallb (fun p => match kv_lbl (snd p) with Some _ => true | None => false end) (km_keys k)
  | _ => true
  end.

(* p2p.UnmarshalPubsubMessage = p2pmsg.Unmarshal (envelope, exact version, registered type,
   Message interface) followed by Validate() *)
Definition unmarshal_pubsub (w : wire) : option gmsg :=
  match w with
  | WGarbage => None
  | WEnv v PNone => None
  | WEnv v (PMsg m) =>
      if bytes_eqb v envelope_version && msg_validate m then Some m else None
  end.

(* ------------------------------------------------------------------------------------- *)
(* State of a node *)

Record gstate := mkGState {
  g_f : fstate;                          (* keyper database (core tables, observer keyper sets) *)
  g_collators : list (Z * option N);     (* chain_collator: activation block, collator (None: not an address) *)
  g_an : an_state;                       (* access node: config and Storage *)
  g_an_sets : list (N * N)               (* access node: eon -> key set label of the stored eon key *)
}.

Definition g_core (st : gstate) : cstate := f_core (g_f st).

(* ------------------------------------------------------------------------------------- *)
(* EonPublicKeyHandler *)
Definition validate_eonpk (st : gstate) (m : eonpk_msg) : gverdict :=
  if negb (e_inst m =? c_instance (g_core st))%N then GReject (GS RInstance) else GAccept.

(* GetChainCollator: WHERE activation_block_number <= $1 ORDER BY activation_block_number DESC LIMIT 1 *)
Fixpoint collator_at (tbl : list (Z * option N)) (blk : Z) (best : option (Z * option N))
  : option (Z * option N) :=
  match tbl with
  | [] => best
  | (a, c) :: r =>
      if (a <=? blk)%Z then
        match best with
        | Some (b, _) => if (b <? a)%Z then collator_at r blk (Some (a, c)) else collator_at r blk best
        | None => collator_at r blk (Some (a, c))
        end
      else collator_at r blk best
  end.

(* snapshot.DecryptionTriggerHandler.ValidateMessage *)
Definition validate_trigger (st : gstate) (m : trigger_msg) : gverdict :=
  if negb (t_inst m =? c_instance (g_core st))%N then GReject (GS RInstance)
  else if (max_int64 <? t_block m)%N then GReject GBlockOverflow
  else
    match collator_at (g_collators st) (Z.of_N (t_block m)) None with
    | None => GReject GNoCollator
    | Some (_, None) => GReject GCollatorDecode
    | Some (_, Some c) =>
        match t_sig m with
        | TsMalformed => GReject GTriggerSigError
        | TsStray => GReject GTriggerSigInvalid
        | TsBy a => if (a =? c)%N then GAccept else GReject GTriggerSigInvalid
        end
    end.

(* PrimevCommitmentHandler.ValidateMessage *)
Definition validate_commit (st : gstate) (m : commit_msg) : gverdict :=
  if negb (cm_nids m =? cm_ntxs m)%nat then GReject GCommitLens
  else if negb (cm_inst m =? c_instance (g_core st))%N then GReject (GS RInstance)
  else GAccept.

(* PrimevCommitmentHandler.HandleMessage: the first thing it does is getBidderNodeAddress.
   Repaired code (/repo commit "fix: getBidderNodeAddress refuses a signature that is not 65
   bytes long"): a length test returns an error. *)
Definition handle_commit (m : commit_msg) : hres := HFin.

(* pinned tree: signatureBytes[64] without a length test *)
Definition legacy_handle_commit (m : commit_msg) : hres :=
  if (cm_siglen m <? 65)%nat then HCrash else HFin.

(* gnosisaccessnode.DecryptionKeysHandler: the label of a key relative to the eon key stored *)
Fixpoint nlookup (l : list (N * N)) (k : N) : option N :=
  match l with
  | [] => None
  | (k', v) :: r => if (k' =? k)%N then Some v else nlookup r k
  end.

Definition an_label (st : gstate) (eon : N) (x : bytes) (v : kv) : keylabel :=
  match kv_lbl v with
  | None => KeyUndecodable
  | Some lb =>
      match nlookup (g_an_sets st) eon with
      | Some ks => if verify_key ks x lb then KeyOk else KeyWrong
      | None => KeyWrong
      end
  end.

Definition validate_keys_access (st : gstate) (m : keys_msg) : gverdict :=
  lift (c_an_validate (g_an st) (to_keysmsg (an_label st (km_eon m)) m) (k_signers m) (k_sigs m)).

(* ------------------------------------------------------------------------------------- *)
(* Node flavours and their validator lists *)

Inductive node := NCore | NGnosis | NService | NPrimev | NSnapshot | NAccess.

(* every ValidateMessage starts with an unchecked type assertion on the message *)
Definition on_shares (f : shares_msg -> gverdict) (m : gmsg) : gverdict :=
  match m with MShares s => f s | _ => GPanic end.
Definition on_keys (f : keys_msg -> gverdict) (m : gmsg) : gverdict :=
  match m with MKeys k => f k | _ => GPanic end.
Definition on_eonpk (f : eonpk_msg -> gverdict) (m : gmsg) : gverdict :=
  match m with MEonPK e => f e | _ => GPanic end.
Definition on_trigger (f : trigger_msg -> gverdict) (m : gmsg) : gverdict :=
  match m with MTrigger t => f t | _ => GPanic end.
(* the Primev handler checks the assertion and rejects *)
Definition on_commit (f : commit_msg -> gverdict) (m : gmsg) : gverdict :=
  match m with MCommit c => f c | _ => GReject (GS RExtraType) end.

Definition validator := (mtype * (gstate -> gmsg -> gverdict))%type.

Definition v_core_shares : validator := (TShares, fun st => on_shares (validate_shares (g_core st))).
Definition v_core_keys : validator := (TKeys, fun st => on_keys (validate_keys (g_core st))).
Definition v_core_eonpk : validator := (TEonPK, fun st => on_eonpk (validate_eonpk st)).
Definition v_gnosis_shares : validator := (TShares, fun st => on_shares (validate_shares_gnosis (g_f st))).
Definition v_gnosis_keys : validator := (TKeys, fun st => on_keys (validate_keys_gnosis (g_f st))).
Definition v_service_shares : validator := (TShares, fun st => on_shares (validate_shares_service (g_f st))).
Definition v_service_keys : validator := (TKeys, fun st => on_keys (validate_keys_service (g_f st))).
Definition v_trigger : validator := (TTrigger, fun st => on_trigger (validate_trigger st)).
Definition v_commit : validator := (TCommit, fun st => on_commit (validate_commit st)).
Definition v_access_keys : validator := (TKeys, fun st => on_keys (validate_keys_access st)).

(* the handlers in registration order: the flavour's own handlers are added to the p2p
   messaging first, then the core keyper adds DecryptionKeyHandler, DecryptionKeyShareHandler,
   EonPublicKeyHandler, then its optional handlers (snapshot: the trigger handler).
   [cs] is the core key-share validator (repaired or pinned tree). *)
Definition registered_with (cs : validator) (nd : node) : list validator :=
  let core := [v_core_keys; cs; v_core_eonpk] in
  match nd with
  | NCore => core
  | NGnosis => [v_gnosis_shares; v_gnosis_keys] ++ core
  | NService => [v_service_shares; v_service_keys] ++ core
  | NPrimev => [v_commit] ++ core
  | NSnapshot => core ++ [v_trigger]
  | NAccess => [v_access_keys]
  end.

Definition registered := registered_with v_core_shares.

(* the same with the key-share validator of the pinned tree *)
Definition legacy_v_core_shares : validator :=
  (TShares, fun st => on_shares (legacy_validate_shares (g_core st))).
Definition legacy_registered := registered_with legacy_v_core_shares.

(* validatorRegistry[topic]: the validators whose prototype has that topic, in order *)
Definition validators_of (reg : list validator) (tp : topic) : list validator :=
  filter (fun v => topic_eqb (topic_of_type (fst v)) tp) reg.
Definition validators_for (nd : node) (tp : topic) : list validator := validators_of (registered nd) tp.

(* ------------------------------------------------------------------------------------- *)
(* addValidatorImpl and GetCombinedValidator *)

Inductive vres := VAccept | VReject | VIgnore | VPanic.

Definition vres_eqb (a b : vres) : bool :=
  match a, b with
  | VAccept, VAccept | VReject, VReject | VIgnore, VIgnore | VPanic, VPanic => true
  | _, _ => false
  end.

Definition vres_of (v : gverdict) : vres :=
  match v with GAccept => VAccept | GReject _ => VReject | GPanic => VPanic end.

(* the closure addValidatorImpl registers for a prototype of type ty (topic = its Topic()):
   topic of the pubsub message, unmarshal + Validate, type of the message, the validator *)
Definition wrapped (ty : mtype) (f : gmsg -> gverdict) (msg_topic : topic) (w : wire) : vres :=
  if negb (topic_eqb msg_topic (topic_of_type ty)) then VReject
  else
    match unmarshal_pubsub w with
    | None => VReject
    | Some m => if negb (mtype_eqb (type_of m) ty) then VReject else vres_of (f m)
    end.

(* GetCombinedValidator: the loop over the topic's validators; a validator that is never
   reached (after a Reject) is not run, so only the results up to the first Reject matter *)
Fixpoint combine (ignored : bool) (l : list vres) : vres :=
  match l with
  | [] => if ignored then VIgnore else VAccept
  | VAccept :: r => combine ignored r
  | VReject :: _ => VReject
  | VIgnore :: r => combine true r
  | VPanic :: _ => VPanic
  end.

(* the validator libp2p runs for messages of topic [tp] on node [nd]; [msg_topic] is the topic
   field of the pubsub message itself (libp2p hands over messages of that topic only) *)
Definition combined_of (vs : list validator) (st : gstate) (msg_topic : topic) (w : wire) : vres :=
  combine false (map (fun v => wrapped (fst v) (snd v st) msg_topic w) vs).

Definition combined (nd : node) (st : gstate) (tp msg_topic : topic) (w : wire) : vres :=
  combined_of (validators_for nd tp) st msg_topic w.

Definition legacy_combined (nd : node) (st : gstate) (tp msg_topic : topic) (w : wire) : vres :=
  combined_of (validators_of (legacy_registered nd) tp) st msg_topic w.

(* ------------------------------------------------------------------------------------- *)
(* P2PMessaging.Handle: every handler function registered for the message's type, in order;
   a panic in one of them ends the process *)

Definition hseq (a b : hres) : hres := match a with HCrash => HCrash | HFin => b end.

(* one handler of the list: which message type, and what it does (o: row order oracle) *)
Definition handler := (mtype * (oracle kv -> gstate -> gmsg -> hres))%type.

Definition h_on_shares (f : shares_msg -> hres) (m : gmsg) : hres :=
  match m with MShares s => f s | _ => HCrash end.
Definition h_on_keys (f : keys_msg -> hres) (m : gmsg) : hres :=
  match m with MKeys k => f k | _ => HCrash end.

Definition core_shares_hres (o : oracle kv) (st : gstate) (s : shares_msg) : hres :=
  hres_of_hout (snd (handle_shares_core o (fun _ => LOther) (g_core st) s)).

Definition h_core_shares : handler := (TShares, fun o st => h_on_shares (core_shares_hres o st)).
Definition h_core_keys : handler := (TKeys, fun _ st => h_on_keys (handle_keys_core (g_core st))).
Definition h_core_eonpk : handler := (TEonPK, fun _ _ _ => HFin).
(* behind the Gnosis middleware: the returned DecryptionKeys message (no Extra) is intercepted *)
Definition h_core_shares_gnosis : handler :=
  (TShares, fun o st => h_on_shares (fun s => hseq (core_shares_hres o st s) (intercept_keys_gnosis core_out_extra))).
Definition h_gnosis_shares : handler := (TShares, fun _ _ => h_on_shares handle_shares_gnosis).
Definition h_gnosis_keys : handler := (TKeys, fun _ _ => h_on_keys handle_keys_gnosis).
Definition h_service_shares : handler := (TShares, fun _ _ => h_on_shares handle_shares_service).
Definition h_service_keys : handler := (TKeys, fun _ _ => h_on_keys handle_keys_service).
(* the snapshot trigger handler and the Primev handler check their type assertion *)
Definition h_trigger : handler := (TTrigger, fun _ _ _ => HFin).
Definition h_commit : handler :=
  (TCommit, fun _ _ m => match m with MCommit c => handle_commit c | _ => HFin end).
Definition legacy_h_commit : handler :=
  (TCommit, fun _ _ m => match m with MCommit c => legacy_handle_commit c | _ => HFin end).
Definition h_access_keys : handler := (TKeys, fun _ _ _ => HFin).

(* [hc]: the Primev commitment handler (repaired or pinned tree) *)
Definition handlers_with (hc : handler) (nd : node) : list handler :=
  let core := [h_core_keys; h_core_shares; h_core_eonpk] in
  match nd with
  | NCore => core
  | NGnosis => [h_gnosis_shares; h_gnosis_keys; h_core_keys; h_core_shares_gnosis; h_core_eonpk]
  | NService => [h_service_shares; h_service_keys] ++ core
  | NPrimev => [hc] ++ core
  | NSnapshot => core ++ [h_trigger]
  | NAccess => [h_access_keys]
  end.

Definition run_handlers (hs : list handler) (o : oracle kv) (st : gstate) (m : gmsg) : hres :=
  fold_left (fun acc h => hseq acc (if mtype_eqb (fst h) (type_of m) then snd h o st m else HFin))
            hs HFin.

Definition handlers := handlers_with h_commit.
Definition legacy_handlers := handlers_with legacy_h_commit.

Definition handle (nd : node) (o : oracle kv) (st : gstate) (m : gmsg) : hres :=
  run_handlers (handlers nd) o st m.
Definition legacy_handle (nd : node) (o : oracle kv) (st : gstate) (m : gmsg) : hres :=
  run_handlers (legacy_handlers nd) o st m.

(* ------------------------------------------------------------------------------------- *)
(* The receive pipeline of libp2p-pubsub + runHandleMessages (the gossipsim gate): the handlers
   run only for a message its topic's combined validator accepted.  Generic in the state
   transformer of the handlers, so that the statement covers every handler. *)
Section Receive.
  Variable S O : Type.
  Variable validate : S -> vres.
  Variable handle_st : S -> S * list O.

  Definition receive (st : S) : S * list O :=
    match validate st with
    | VAccept => handle_st st
    | _ => (st, [])
    end.
End Receive.
