(* C03 - a network of keyper nodes (core / Gnosis / Shutter service flavour, plus the Gnosis
   access node) exchanging key-shares and keys messages.

   Transcribed from
     keyper/epochkghandler/sendkeyshare.go   ConstructDecryptionKeyShares
     keyper/epochkghandler/service.go        handleEvent (construct, then Messaging.SendMessage)
     keyper/epochkghandler/keyshare.go, key.go   HandleMessage (through Model/Gossip.v, Model/EpochKGHandler.v)
     keyper/database/extend.go               InsertDecryptionKeysMsg, InsertDecryptionKeySharesMsg, GetKeyperIndex
     keyperimpl/gnosis/messagingmiddleware.go      interceptDecryptionKeyShares, interceptDecryptionKeys,
                                                   WrappedMessageHandler.HandleMessage
     keyperimpl/gnosis/handlers.go                 DecryptionKeySharesHandler.HandleMessage, DecryptionKeysHandler.HandleMessage
     keyperimpl/shutterservice/messagingmiddleware.go, handlers.go   the same functions
     keyperimpl/{gnosis,shutterservice}/database/sql   InsertSlotDecryptionSignature / GetSlotDecryptionSignatures,
                                                   InsertDecryptionSignature / GetDecryptionSignatures, GetCurrentDecryptionTrigger
     p2p/messaging.go handle, p2p/topic.go readLoop  (publish = own validator first; own messages are not handled)
   Validation is Model/Gossip.v / Model/GossipMisc.v. Definitions only.

   Idealisations: the identities hash (Keccak over the concatenated identities) is the identity
   list itself; group elements are labels with bytes attached through two tables of the run:
   [sharebytes e i x] / [keybytes e x] (what Marshal gives for the share of keyper i / the epoch
   key of key set e for x) and [classify] (what stored key bytes are). The tx pointer table and
   the event flags written by the handlers are not observable in C03 and are left out. *)
From Coq Require Import List NArith ZArith Bool Lia.
From Verif Require Import Lib.Bytes Model.EpochKG Model.EpochKGLabels Model.EpochKGHandler.
From Verif Require Export Model.GossipMisc.
Import ListNotations.

(* slot_decryption_signatures (Gnosis) / decryption_signatures (service: slot = txp = 0) *)
Record sigrow := mkSigRow {
  sg_eon : Z; sg_slot : Z; sg_kidx : Z; sg_txp : Z;
  sg_ids : list bytes;        (* identities_hash *)
  sg_sig : csig
}.

(* current_decryption_trigger of the Gnosis keyper: eon -> slot, tx pointer, identities hash *)
Definition trigrow := (Z * (Z * Z * list bytes))%type.

Record knode := mkKNode {
  kn_fl : node;                 (* NCore | NGnosis | NService | NAccess *)
  kn_g : gstate;
  kn_sigs : list sigrow;
  kn_trig : list trigrow
}.

Definition kn_core (nd : knode) : cstate := g_core (kn_g nd).

Definition set_core (nd : knode) (c : cstate) : knode :=
  let g := kn_g nd in
  mkKNode (kn_fl nd) (mkGState (mkFState c (f_ksets (g_f g))) (g_collators g) (g_an g) (g_an_sets g))
          (kn_sigs nd) (kn_trig nd).

Definition set_sigs (nd : knode) (s : list sigrow) : knode := mkKNode (kn_fl nd) (kn_g nd) s (kn_trig nd).

Section Net.
  Variable sharebytes : N -> N -> bytes -> bytes.
  Variable keybytes : N -> bytes -> bytes.
  Variable classify : bytes -> lbl.

  Definition bytes_of_key (l : lbl) : bytes :=
    match l with LKey e x => keybytes e x | _ => [] end.

  (* ----------------------------------------------------------------------------------- *)
  (* ConstructDecryptionKeyShares *)

  Fixpoint index_of (a : N) (l : list N) (i : N) : option N :=
    match l with
    | [] => None
    | b :: r => if (b =? a)%N then Some i else index_of a r (i + 1)%N
    end.

  Definition share_exists (tbl : list (share_row kv)) (eon : Z) (x : bytes) (kidx : Z) : bool :=
    existsb (fun r => (r_eon r =? eon)%Z && bytes_eqb (r_ident r) x && (r_kidx r =? kidx)%Z) tbl.

  Definition insert_own_shares (tbl : list (share_row kv)) (eon kidx : Z) (shares : list (bytes * kv)) :=
    fold_left (fun tb s => insert_share tb (mkShareRow eon (fst s) kidx (snd s))) shares tbl.

  (* eon_id: eons.eon, kci: eons.keyper_config_index of the eon the trigger's block falls into.
     None: an error is returned and nothing is sent. *)
  Definition construct (st : cstate) (eon_id kci : Z) (ids : list bytes) : option (cstate * shares_msg) :=
    match ids with
    | [] => None
    | _ =>
        if (int_of_u64 (c_maxkeys st) <? Z.of_nat (length ids))%Z then None
        else
          match zlookup (c_configs st) (to_i32 kci) with
          | None => None
          | Some keypers =>
              match index_of (c_self st) keypers 0 with
              | None => None                                    (* ErrNotAKeyper *)
              | Some kidx =>
                  if (kci <? 0)%Z then None                     (* Int64ToUint64Safe *)
                  else if forallb (fun x => share_exists (c_shares st) kci x (Z.of_N kidx)) ids
                  then None                                     (* ErrSharesAlreadySent *)
                  else
                    match zlookup (c_dkg st) eon_id with        (* GetDKGResult(eon.Eon) *)
                    | Some (DkgOk ks _ _) =>
                        let shares := map (fun x => (x, mkKV (sharebytes ks kidx x) (Some (LShare ks kidx x)))) ids in
                        let m := mkSharesMsg (c_instance st) (Z.to_N kci) kidx shares SxNone in
                        Some (mkCState (c_instance st) (c_maxkeys st) (c_self st) (c_configs st) (c_eons st)
                                       (c_dkg st) (c_keys st)
                                       (insert_own_shares (c_shares st) kci (Z.of_N kidx) shares), m)
                    | _ => None
                    end
              end
          end
    end.

  (* ----------------------------------------------------------------------------------- *)
  (* signature tables *)

  Fixpoint ids_eqb (a b : list bytes) : bool :=
    match a, b with
    | [], [] => true
    | x :: a', y :: b' => bytes_eqb x y && ids_eqb a' b'
    | _, _ => false
    end.

  (* Gnosis: PRIMARY KEY (eon, slot, keyper_index); service: (eon, keyper_index, identities_hash);
     both INSERT ... ON CONFLICT DO NOTHING *)
  Definition sig_conflict (fl : node) (a b : sigrow) : bool :=
    match fl with
    | NGnosis => (sg_eon a =? sg_eon b)%Z && (sg_slot a =? sg_slot b)%Z && (sg_kidx a =? sg_kidx b)%Z
    | _ => (sg_eon a =? sg_eon b)%Z && (sg_kidx a =? sg_kidx b)%Z && ids_eqb (sg_ids a) (sg_ids b)
    end.

  Definition insert_sig (fl : node) (tbl : list sigrow) (r : sigrow) : list sigrow :=
    if existsb (sig_conflict fl r) tbl then tbl else tbl ++ [r].

  Fixpoint insert_by_kidx (r : sigrow) (l : list sigrow) : list sigrow :=
    match l with
    | [] => [r]
    | a :: l' => if (sg_kidx r <? sg_kidx a)%Z then r :: l else a :: insert_by_kidx r l'
    end.
  Definition sort_by_kidx (l : list sigrow) : list sigrow := fold_right insert_by_kidx [] l.

  (* Get(Slot)DecryptionSignatures: WHERE eon, [slot, tx_pointer,] identities_hash ORDER BY
     keyper_index ASC LIMIT threshold *)
  Definition get_sigs (fl : node) (tbl : list sigrow) (eon slot txp : Z) (ids : list bytes) (limit : Z) : list sigrow :=
    let sel := filter (fun r => (sg_eon r =? eon)%Z && ids_eqb (sg_ids r) ids &&
                                match fl with NGnosis => (sg_slot r =? slot)%Z && (sg_txp r =? txp)%Z | _ => true end) tbl in
    firstn (Z.to_nat limit) (sort_by_kidx sel).

  Definition signers_of (rows : list sigrow) : list N := map (fun r => u64_of_i64 (sg_kidx r)) rows.
  Definition sigs_of (rows : list sigrow) : list csig := map sg_sig rows.

  Definition self_addr (nd : knode) : N := c_self (kn_core nd).

  (* ----------------------------------------------------------------------------------- *)
  (* the messaging middleware on the way out *)

  (* interceptDecryptionKeyShares: None = the message is dropped *)
  Definition intercept_shares (nd : knode) (m : shares_msg) : knode * option shares_msg :=
    let eon := int_of_u64 (s_eon m) in
    let ids := sh_ids m in
    match kn_fl nd with
    | NService =>
        let sg := SigBy (self_addr nd) (TService (c_instance (kn_core nd)) (s_eon m) ids) in
        (set_sigs nd (insert_sig NService (kn_sigs nd) (mkSigRow eon 0 (int_of_u64 (s_kidx m)) 0 ids sg)),
         Some (mkSharesMsg (s_inst m) (s_eon m) (s_kidx m) (s_shares m) (SxService sg)))
    | NGnosis =>
        match zlookup (kn_trig nd) eon with
        | None => (nd, None)
        | Some (slot, txp, tids) =>
            if negb (ids_eqb ids tids) then (nd, None)
            else
              let sg := SigBy (self_addr nd) (TGnosis (c_instance (kn_core nd)) (s_eon m) (u64_of_i64 slot) (u64_of_i64 txp) ids) in
              (set_sigs nd (insert_sig NGnosis (kn_sigs nd) (mkSigRow eon slot (int_of_u64 (s_kidx m)) txp ids sg)),
               Some (mkSharesMsg (s_inst m) (s_eon m) (s_kidx m) (s_shares m)
                                 (SxGnosis (u64_of_i64 slot) (u64_of_i64 txp) sg)))
        end
    | _ => (nd, Some m)
    end.

  Definition threshold_of (nd : knode) (eon : Z) : option Z :=
    match zlookup (f_ksets (g_f (kn_g nd))) eon with Some ks => Some (ks_threshold ks) | None => None end.

  (* interceptDecryptionKeys for a message without Extra (the core handler's) *)
  Definition intercept_keys (nd : knode) (m : keys_msg) : option keys_msg :=
    let eon := int_of_u64 (km_eon m) in
    match kn_fl nd with
    | NService =>
        match threshold_of nd eon with
        | None => None                                   (* error *)
        | Some thr =>
            let rows := get_sigs NService (kn_sigs nd) eon 0 0 (k_ids m) thr in
            if (Z.of_nat (length rows) <? thr)%Z then None
            else Some (mkKeysMsg (km_inst m) (km_eon m) (km_keys m) (KxService (signers_of rows) (sigs_of rows)))
        end
    | NGnosis =>
        match zlookup (kn_trig nd) eon with
        | None => None
        | Some (slot, txp, tids) =>
            match threshold_of nd eon with
            | None => None
            | Some thr =>
                let rows := get_sigs NGnosis (kn_sigs nd) eon slot txp tids thr in
                if (Z.of_nat (length rows) <? thr)%Z then None
                else Some (mkKeysMsg (km_inst m) (km_eon m) (km_keys m)
                                     (KxGnosis (u64_of_i64 slot) (u64_of_i64 txp) (signers_of rows) (sigs_of rows)))
            end
        end
    | _ => Some m
    end.

  (* ----------------------------------------------------------------------------------- *)
  (* handlers with their effects *)

  (* DecryptionKeyShareHandler.HandleMessage: new share and key tables, the keys it returns *)
  Definition core_handle_shares (o : oracle kv) (st : cstate) (m : shares_msg) : cstate * option (list (bytes * lbl)) :=
    let '(d', out) := handle_shares_core o classify st m in
    let newkeys := skipn (length (c_keys st)) (key_tbl d') in
    (mkCState (c_instance st) (c_maxkeys st) (c_self st) (c_configs st) (c_eons st) (c_dkg st)
              (c_keys st ++ map (fun r => (EpochKGHandler.k_eon r, k_ident r, bytes_of_key (k_key r))) newkeys)
              (share_tbl d'),
     match out with HKeys ks => Some ks | _ => None end).

  (* InsertDecryptionKeysMsg *)
  Definition insert_keys (tbl : list (Z * bytes * bytes)) (eon : Z) (ks : list (bytes * kv)) :=
    fold_left (fun tb k => match stored_key tb eon (fst k) with
                           | Some _ => tb
                           | None => tb ++ [(eon, fst k, kv_bytes (snd k))]
                           end) ks tbl.

  Definition core_handle_keys (st : cstate) (m : keys_msg) : cstate :=
    mkCState (c_instance st) (c_maxkeys st) (c_self st) (c_configs st) (c_eons st) (c_dkg st)
             (insert_keys (c_keys st) (int_of_u64 (km_eon m)) (km_keys m)) (c_shares st).

  (* the keys read back from the key table for the identities of a share message; None: some
     key is missing (pgx.ErrNoRows -> return nothing) *)
  Fixpoint keys_from_table (tbl : list (Z * bytes * bytes)) (eon : Z) (ids : list bytes) : option (list (bytes * kv)) :=
    match ids with
    | [] => Some []
    | x :: r =>
        match stored_key tbl eon x, keys_from_table tbl eon r with
        | Some k, Some l => Some ((x, mkKV k (Some (classify k))) :: l)
        | _, _ => None
        end
    end.

  (* gnosis / shutterservice DecryptionKeySharesHandler.HandleMessage (validated message) *)
  Definition flavour_handle_shares (nd : knode) (m : shares_msg) : knode * list keys_msg :=
    let eon := int_of_u64 (s_eon m) in
    let ids := sh_ids m in
    match kn_fl nd, s_extra m with
    | NGnosis, SxGnosis slot txp sg =>
        let zs := int_of_u64 slot in let zp := int_of_u64 txp in
        let nd' := set_sigs nd (insert_sig NGnosis (kn_sigs nd) (mkSigRow eon zs (int_of_u64 (s_kidx m)) zp ids sg)) in
        match threshold_of nd' eon with
        | None => (nd', [])
        | Some thr =>
            let rows := get_sigs NGnosis (kn_sigs nd') eon zs zp ids thr in
            if (Z.of_nat (length rows) <? thr)%Z then (nd', [])
            else match keys_from_table (c_keys (kn_core nd')) eon ids with
                 | None => (nd', [])
                 | Some ks => (nd', [mkKeysMsg (s_inst m) (s_eon m) ks (KxGnosis slot txp (signers_of rows) (sigs_of rows))])
                 end
        end
    | NService, SxService sg =>
        let nd' := set_sigs nd (insert_sig NService (kn_sigs nd) (mkSigRow eon 0 (int_of_u64 (s_kidx m)) 0 ids sg)) in
        match threshold_of nd' eon with
        | None => (nd', [])
        | Some thr =>
            let rows := get_sigs NService (kn_sigs nd') eon 0 0 ids thr in
            if (Z.of_nat (length rows) <? thr)%Z then (nd', [])
            else match keys_from_table (c_keys (kn_core nd')) eon ids with
                 | None => (nd', [])
                 | Some ks => (nd', [mkKeysMsg (s_inst m) (s_eon m) ks (KxService (signers_of rows) (sigs_of rows))])
                 end
        end
    | _, _ => (nd, [])
    end.

  Fixpoint insert_signer_rows (fl : node) (tbl : list sigrow) (eon slot txp : Z) (ids : list bytes)
           (signers : list N) (sigs : list csig) : list sigrow :=
    match signers, sigs with
    | s :: sr, g :: gr => insert_signer_rows fl (insert_sig fl tbl (mkSigRow eon slot (int_of_u64 s) txp ids g)) eon slot txp ids sr gr
    | _, _ => tbl
    end.

  (* gnosis / shutterservice DecryptionKeysHandler.HandleMessage (validated message) *)
  Definition flavour_handle_keys (nd : knode) (m : keys_msg) : knode :=
    let eon := int_of_u64 (km_eon m) in
    match kn_fl nd, km_extra m with
    | NGnosis, KxGnosis slot txp signers sigs =>
        set_sigs nd (insert_signer_rows NGnosis (kn_sigs nd) eon (int_of_u64 slot) (int_of_u64 txp) (k_ids m) signers sigs)
    | NService, KxService signers sigs =>
        set_sigs nd (insert_signer_rows NService (kn_sigs nd) eon 0 0 (k_ids m) signers sigs)
    | _, _ => nd
    end.

  (* P2PMessaging.Handle for an accepted message: the flavour's own handler first, then the
     core handler behind the middleware. Returns the messages to publish, in order. *)
  Definition handle_msg (o : oracle kv) (nd : knode) (m : gmsg) : knode * list gmsg :=
    match kn_fl nd, m with
    | NAccess, _ => (nd, [])
    | _, MShares s =>
        let '(nd1, out1) := flavour_handle_shares nd s in
        let '(c', ks) := core_handle_shares o (kn_core nd1) s in
        let nd2 := set_core nd1 c' in
        let out2 :=
          match ks with
          | None => []
          | Some l =>
              let km := mkKeysMsg (c_instance c') (s_eon s)
                                  (map (fun p => (fst p, mkKV (bytes_of_key (snd p)) (Some (snd p)))) l) KxNone in
              match intercept_keys nd2 km with Some km' => [km'] | None => [] end
          end in
        (nd2, map MKeys out1 ++ map MKeys out2)
    | _, MKeys k =>
        let nd1 := flavour_handle_keys nd k in
        (set_core nd1 (core_handle_keys (kn_core nd1) k), [])
    | _, _ => (nd, [])
    end.

  (* ----------------------------------------------------------------------------------- *)
  (* the network *)

  Definition topic_of_msg (m : gmsg) : topic := topic_of_type (type_of m).

  Definition validate_at (nd : knode) (m : gmsg) : vres :=
    combined (kn_fl nd) (kn_g nd) (topic_of_msg m) (topic_of_msg m) (WEnv envelope_version (PMsg m)).

  Record net := mkNet {
    nodes : list knode;
    sent : list (nat * gmsg)        (* published messages in order: sender, message *)
  }.

  Inductive op :=
  | OpTrigger (i : nat) (eon_id kci slot txp : Z) (ids : list bytes)
    (* the keyper's trigger source fired: Gnosis stores its current_decryption_trigger row
       first (newslot.go), then the key share handler constructs and sends *)
  | OpDeliver (m : nat) (j : nat) (perms : list (list nat)).
    (* message number m reaches node j (perms: the row order the database chose) *)

  (* what an operation did, as observed: the verdict of the receiver (deliveries), and for every
     message handed to publication the sender's own verdict *)
  Inductive pub := Pub (m : gmsg) (own : vres).
  Inductive step_obs := SkipOp | Did (verdict : vres) (pubs : list pub).

  Fixpoint set_nth {A} (l : list A) (i : nat) (a : A) : list A :=
    match l, i with
    | [], _ => []
    | _ :: r, O => a :: r
    | x :: r, S i' => x :: set_nth r i' a
    end.

  (* publish: libp2p validates a local publish with the node's own validator; a reject means the
     message is never sent *)
  Definition publish (i : nat) (nd : knode) (ms : list gmsg) (snt : list (nat * gmsg)) : list (nat * gmsg) * list pub :=
    fold_left (fun acc m =>
                 let v := validate_at nd m in
                 (match v with VAccept => fst acc ++ [(i, m)] | _ => fst acc end, snd acc ++ [Pub m v]))
              ms (snt, []).

  Definition upsert_trig (l : list trigrow) (eon : Z) (v : Z * Z * list bytes) : list trigrow :=
    (eon, v) :: filter (fun r => negb (fst r =? eon)%Z) l.

  Definition oracle_of_perms (perms : list (list nat)) : oracle kv :=
    fun i rows =>
      match nth_error perms i with
      | Some p => if (length p =? length rows)%nat
                  then flat_map (fun j => match nth_error rows j with Some r => [r] | None => [] end) p
                  else rows
      | None => rows
      end.

  Definition step (nt : net) (o : op) : net * step_obs :=
    match o with
    | OpTrigger i eon_id kci slot txp ids =>
        match nth_error (nodes nt) i with
        | None => (nt, SkipOp)
        | Some nd =>
            let nd0 := match kn_fl nd with
                       | NGnosis => mkKNode (kn_fl nd) (kn_g nd) (kn_sigs nd) (upsert_trig (kn_trig nd) kci (slot, txp, ids))
                       | _ => nd
                       end in
            match construct (kn_core nd0) eon_id kci ids with
            | None => (mkNet (set_nth (nodes nt) i nd0) (sent nt), SkipOp)
            | Some (c', m) =>
                let nd1 := set_core nd0 c' in
                let '(nd2, om) := intercept_shares nd1 m in
                match om with
                | None => (mkNet (set_nth (nodes nt) i nd2) (sent nt), Did VAccept [])
                | Some m' =>
                    let '(snt, pubs) := publish i nd2 [MShares m'] (sent nt) in
                    (mkNet (set_nth (nodes nt) i nd2) snt, Did VAccept pubs)
                end
            end
        end
    | OpDeliver mi j perms =>
        match nth_error (sent nt) mi, nth_error (nodes nt) j with
        | Some (from, m), Some nd =>
            if (from =? j)%nat then (nt, SkipOp)               (* readLoop: own messages are not forwarded *)
            else if negb (existsb (fun v => mtype_eqb (fst v) (type_of m)) (registered (kn_fl nd)))
            then (nt, SkipOp)                                  (* not subscribed to that topic *)
            else
              match validate_at nd m with
              | VAccept =>
                  let '(nd', outs) := handle_msg (oracle_of_perms perms) nd m in
                  let '(snt, pubs) := publish j nd' outs (sent nt) in
                  (mkNet (set_nth (nodes nt) j nd') snt, Did VAccept pubs)
              | v => (nt, Did v [])
              end
        | _, _ => (nt, SkipOp)
        end
    end.

  Fixpoint run_net (nt : net) (ops : list op) : net * list step_obs :=
    match ops with
    | [] => (nt, [])
    | o :: r => let '(nt', ob) := step nt o in
                let '(nt'', obs) := run_net nt' r in (nt'', ob :: obs)
    end.
End Net.

(* ------------------------------------------------------------------------------------- *)
(* What a run does to the core tables of one node, as a sequence of node-level events (the
   theorems about key tables are stated over these; Proofs/GossipNetRun.v shows that the core
   tables of node j after a network run are exactly the events addressed to j applied in order) *)
Section NodeEvents.
  Variable sharebytes : N -> N -> bytes -> bytes.
  Variable keybytes : N -> bytes -> bytes.
  Variable classify : bytes -> lbl.

  Inductive nev :=
  | NevOwn (eon_id kci : Z) (ids : list bytes)      (* the node is triggered *)
  | NevShares (o : oracle kv) (m : shares_msg)      (* an accepted key-shares message is handled *)
  | NevKeys (m : keys_msg).                         (* an accepted keys message is handled *)

  Definition apply_nev (c : cstate) (e : nev) : cstate :=
    match e with
    | NevOwn eon_id kci ids =>
        match construct sharebytes c eon_id kci ids with Some (c', _) => c' | None => c end
    | NevShares o m => fst (core_handle_shares keybytes classify o c m)
    | NevKeys m => core_handle_keys c m
    end.

  Definition node_run (c : cstate) (evs : list nev) : cstate := fold_left apply_nev evs c.

  (* the events operation [o] causes at node [j] in network [nt] *)
  Definition step_events (nt : net) (o : op) (j : nat) : list nev :=
    match o with
    | OpTrigger i eon_id kci slot txp ids =>
        if (i =? j)%nat then
          match nth_error (nodes nt) i with Some _ => [NevOwn eon_id kci ids] | None => [] end
        else []
    | OpDeliver mi j' perms =>
        if negb (j' =? j)%nat then []
        else
          match nth_error (sent nt) mi, nth_error (nodes nt) j with
          | Some (from, m), Some nd =>
              if (from =? j)%nat then []
              else if negb (existsb (fun v => mtype_eqb (fst v) (type_of m)) (registered (kn_fl nd))) then []
              else
                match validate_at nd m with
                | VAccept =>
                    match kn_fl nd, m with
                    | NAccess, _ => []
                    | _, MShares s => [NevShares (oracle_of_perms perms) s]
                    | _, MKeys k => [NevKeys k]
                    | _, _ => []
                    end
                | _ => []
                end
          | _, _ => []
          end
    end.
End NodeEvents.
