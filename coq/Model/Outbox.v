(* Executable model of the keyper's shuttermint loop as a crash-prone process
   (keyper.go operateShuttermint / handleOnChainChanges, fx/send.go SendShutterMessages,
   fx/messagesender.go, smdriver.go sync / fetchEvents2), on top of Model/DKGDriver.v.

   Durable state: the database [odb] (the tables of DKGDriver.db plus last_batch_config_sent
   and last_block_seen).  Volatile state: the ShuttermintState cache [sm].  The environment
   keeps [w_log], the sequence of messages shuttermint received from this keyper with its
   answers - that is outside the process and survives its death.

   One loop iteration is: per new block one transaction [OBlock] (handleBlock; on an error the
   cache is invalidated and the loop returns the error, i.e. the process exits); one
   transaction [OOnChain] (handleOnChainKeyperSetChanges + sendNewBlockSeen); then the send loop:
   [OSend] broadcasts the head of the outbox, on the answers Ok / Seen the row is deleted
   [ODelete], on Error the loop stops and the row stays.  A crash [OCrash] can come between any
   two of these; a transaction that the crash interrupts either did not commit ([commit] =
   false) or committed without the process learning it (commit = true followed by OCrash); a
   broadcast that the crash interrupts either never reached shuttermint (SNotSent) or was
   applied without the process learning the answer (SLost).  Executions are op lists: the
   theorems quantify over all of them, the correspondence replays the recorded ones. *)
From Coq Require Import List NArith ZArith Bool Lia.
From Verif Require Import Lib.Bytes Model.DKGPure Model.DKGDriver.
Import ListNotations.
Open Scope Z_scope.

Inductive resp := ROk | RSeen | RErr.

Inductive sresult :=
| SAnswer (r : resp)     (* shuttermint's answer reached the keyper *)
| SLost (r : resp)       (* applied by shuttermint, the reply was lost: the process dies *)
| SNotSent.              (* the process died before the transaction reached shuttermint *)

Record ksrow := mkKs { ks_act : Z; ks_keypers : list addr; ks_threshold : Z }.

Section Outbox.
Variables C E P : Type.
Variable commit_of : P -> C.
Variable eval_of : P -> nat -> E.
Variable verify : nat -> E -> C -> bool.
Variable deg_ok : N -> C -> bool.
Variable valid_eval : E -> bool.
Variable me : addr.
Variable L : Z.
Variable enum : list (N * @active C E P) -> list (N * @active C E P).
Variable delta : Z.                                  (* DKGStartBlockDelta *)

Notation db := (db C E P).
Notation sm := (@sm C E P).
Notation msg := (msg C E).
Notation dev := (dev C E).

Record odb := mkOdb {
  o_db : db;
  o_lastcfg : Z;            (* last_batch_config_sent.keyper_config_index *)
  o_lastseen : Z            (* last_block_seen.block_number *)
}.

Definition odb_init : odb := mkOdb db_init 0 (-1).

Fixpoint addrs_unique (l : list addr) : bool :=
  match l with
  | [] => true
  | a :: r => negb (existsb (bytes_eqb a) r) && addrs_unique r
  end.

(* GetLatestBatchConfig: the row with the greatest keyper_config_index *)
Definition latest_cfg (cfgs : list (N * cfgrow)) : option (N * cfgrow) :=
  fold_left (fun acc row => match acc with
                            | None => Some row
                            | Some (i, _) => if N.ltb i (fst row) then Some row else acc
                            end) cfgs None.

Fixpoint zget {A} (m : list (Z * A)) (k : Z) : option A :=
  match m with [] => None | (k', v) :: r => if Z.eqb k' k then Some v else zget r k end.

(* validateBatchConfig: true = an error *)
Definition invalid_set (latest : N * cfgrow) (idx : Z) (ks : ksrow) : bool :=
  Nat.eqb (length (ks_keypers ks)) 0 ||
  (ks_threshold ks <=? 0) ||
  (Z.of_nat (length (ks_keypers ks)) <? ks_threshold ks) ||
  negb (addrs_unique (ks_keypers ks)) ||
  (ks_act ks <? Z.of_N (cf_act (snd latest))) ||
  (idx <=? Z.of_N (fst latest)).

(* handleOnChainKeyperSetChanges *)
Definition keyper_set_changes (ksets : list (Z * ksrow)) (o : odb) (l1 : Z) : tx odb :=
  match latest_cfg (db_cfgs _ _ _ (o_db o)) with
  | None => TOk o
  | Some latest =>
      let nxt := Z.max (Z.of_N (fst latest)) (o_lastcfg o) in
      match zget ksets (nxt + 1) with
      | None => TOk o
      | Some ks =>
          if invalid_set latest (nxt + 1) ks then TOk (mkOdb (o_db o) (nxt + 1) (o_lastseen o))
          else if ks_act ks <? 0 then TErr
          else if (l1 <? ks_act ks) && (delta <? ks_act ks - l1) then TOk o
          else TOk (mkOdb (schedule C E P (o_db o) (Some (Z.to_N (ks_act ks), Z.to_N (nxt + 1)))
                                    (MVote (Z.to_N (ks_act ks)) (Z.to_N (nxt + 1))))
                          (nxt + 1) (o_lastseen o))
      end
  end.

(* sendNewBlockSeen *)
Definition block_seen (o : odb) (l1 : Z) : odb :=
  let cnt := length (filter (fun row => is_member (cf_keypers (snd row)) me &&
                                        (o_lastseen o <=? Z.of_N (cf_act (snd row))) &&
                                        (Z.of_N (cf_act (snd row)) <? l1))
                            (db_cfgs _ _ _ (o_db o))) in
  if Nat.eqb cnt 0 then o
  else mkOdb (schedule C E P (o_db o) None (MBlockSeen (Z.to_N l1))) (o_lastcfg o) l1.

(* handleOnChainChanges: one transaction *)
Definition on_chain (ksets : list (Z * ksrow)) (o : odb) (l1 : Z) : tx odb :=
  bind (keyper_set_changes ksets o l1) (fun o1 => TOk (block_seen o1 l1)).

Record world := mkW {
  w_o : odb;
  w_sm : sm;
  w_log : list (N * msg * resp)     (* what shuttermint received: outbox id, message, its answer *)
}.

Definition world_init : world := mkW odb_init sm_fresh [].

Inductive op :=
| OBlock (blk : Z * list dev) (lch : Z) (poly : N -> P) (commit : bool)
| OOnChain (ksets : list (Z * ksrow)) (l1 : Z) (commit : bool)
| OSend (r : sresult)
| ODelete (commit : bool)
| OCrash.

Definition with_db (o : odb) (d : db) : odb := mkOdb d (o_lastcfg o) (o_lastseen o).

(* GetNextShutterMessage: the row with the smallest id; rows are appended with increasing ids *)
Definition head (d : db) : option (N * (option (N * N) * msg)) :=
  match db_outbox _ _ _ d with [] => None | r :: _ => Some r end.

Definition delete_id (d : db) (id : N) : db :=
  upd_db_outbox C E P d (filter (fun r => negb (N.eqb (fst r) id)) (db_outbox _ _ _ d)) (db_nextid _ _ _ d).

(* None: the recorded outcome is impossible for the model (a committed transaction that the
   model says fails) *)
Definition step (w : world) (o : op) : option world :=
  match o with
  | OBlock blk lch poly commit =>
      if commit then
        match handle_block C E P commit_of eval_of verify deg_ok valid_eval me L enum poly
                           (o_db (w_o w), w_sm w) blk lch with
        | TOk (d', s') => Some (mkW (with_db (w_o w) d') s' (w_log w))
        | _ => None
        end
      else Some (mkW (w_o w) sm_fresh (w_log w))
  | OOnChain ksets l1 commit =>
      if commit then
        match on_chain ksets (w_o w) l1 with
        | TOk o' => Some (mkW o' (w_sm w) (w_log w))
        | _ => None
        end
      else Some w
  | OSend r =>
      match head (o_db (w_o w)) with
      | None => Some w
      | Some (id, (_, m)) =>
          match r with
          | SAnswer a | SLost a => Some (mkW (w_o w) (w_sm w) (w_log w ++ [(id, m, a)]))
          | SNotSent => Some w
          end
      end
  | ODelete commit =>
      if commit then
        match head (o_db (w_o w)) with
        | None => Some w
        | Some (id, _) => Some (mkW (with_db (w_o w) (delete_id (o_db (w_o w)) id)) (w_sm w) (w_log w))
        end
      else Some w
  | OCrash => Some (mkW (w_o w) sm_fresh (w_log w))
  end.

Fixpoint run (w : world) (ops : list op) : option world :=
  match ops with
  | [] => Some w
  | o :: r => match step w o with Some w' => run w' r | None => None end
  end.

(* the run without the crashes and without the attempts that did not commit *)
Definition survives (o : op) : bool :=
  match o with
  | OBlock _ _ _ c => c
  | OOnChain _ _ c => c
  | OSend (SAnswer _) | OSend (SLost _) => true
  | OSend SNotSent => false
  | ODelete c => c
  | OCrash => false
  end.

End Outbox.

Arguments mkOdb {C E P}.
Arguments o_db {C E P}.
Arguments o_lastcfg {C E P}.
Arguments o_lastseen {C E P}.
Arguments mkW {C E P}.
Arguments w_o {C E P}.
Arguments w_sm {C E P}.
Arguments w_log {C E P}.
Arguments OBlock {C E P}.
Arguments OOnChain {C E P}.
Arguments OSend {C E P}.
Arguments ODelete {C E P}.
Arguments OCrash {C E P}.
