(* Model of keyper/eonpkhandler.go (queryAndHandleNewEonPubKeys and what it calls), of the
   three tables it joins, and of the statements that fill them:

     tendermint_batch_config (keyper_config_index PRIMARY KEY, keypers, ...)   InsertBatchConfig
     eons (eon PRIMARY KEY, activation_block_number, keyper_config_index, ...) InsertEon
     outgoing_eon_keys (eon_public_key, eon PRIMARY KEY)                        InsertEonPublicKey
                                    (smstate.go finalizeDKG, successful DKG)   GetAndDeleteEonPublicKeys

   One poll = GetAndDeleteEonPublicKeys (all outgoing rows are deleted; those that find an eon
   and a keyper set are returned, in the order in which the scan happens to deliver the deleted
   rows - that order is the explicit argument [enum]) followed by the loop of the source:
   membership test, the three safe casts, broadcast and/or callback.  The publication
   mechanisms are the environment: [answers] says, call by call, whether the mechanism accepts
   (true) or returns an error (false); when the list is used up every further call is accepted.

   [handle_rows] follows the loop of the source as it is now (repaired by commit dbdf6df
   "fix: publish every pending eon public key, not only the first of a batch" in /repo);
   [legacy_handle_rows] is the loop as it was on the pinned tree (D13: both branches
   `return errors.Wrap(err, ...)` unconditionally, errors.Wrap(nil) = nil).

   Definitions only; the proofs are in Proofs/EonPK.v. *)
From Coq Require Import List NArith ZArith Bool Lia Permutation.
From Verif Require Import Lib.Bytes.
Import ListNotations.
Open Scope Z_scope.

(* ---------------------------------------------------------------------------------------- *)
(* tables *)

Record eon_row := mkEon { er_eon : Z; er_act : Z; er_kci : Z }.
Record cfg_row := mkCfg { cr_kci : Z; cr_keypers : list bytes }.
Record out_row := mkOut { or_key : bytes; or_eon : Z }.

Record db := mkDb { outgoing : list out_row; eons : list eon_row; cfgs : list cfg_row }.

Definition empty_db : db := mkDb [] [] [].

Definition find_eon (es : list eon_row) (e : Z) : option eon_row :=
  find (fun r => er_eon r =? e) es.
Definition find_cfg (cs : list cfg_row) (k : Z) : option cfg_row :=
  find (fun r => cr_kci r =? k) cs.
Definition pending_eon (os : list out_row) (e : Z) : bool :=
  existsb (fun r => or_eon r =? e) os.

(* INSERT without ON CONFLICT into a table with a primary key: a second row with the same key
   is refused (SQLSTATE 23505) and nothing changes.  Rows are kept in insertion order. *)
Definition insert_cfg (d : db) (kci : Z) (keypers : list bytes) : db * bool :=
  match find_cfg (cfgs d) kci with
  | Some _ => (d, false)
  | None => (mkDb (outgoing d) (eons d) (cfgs d ++ [mkCfg kci keypers]), true)
  end.

Definition insert_eon (d : db) (e act kci : Z) : db * bool :=
  match find_eon (eons d) e with
  | Some _ => (d, false)
  | None => (mkDb (outgoing d) (eons d ++ [mkEon e act kci]) (cfgs d), true)
  end.

(* finalizeDKG, success branch: InsertEonPublicKey(publicKeyBytes, eon) *)
Definition insert_outgoing (d : db) (key : bytes) (e : Z) : db * bool :=
  if pending_eon (outgoing d) e then (d, false)
  else (mkDb (outgoing d ++ [mkOut key e]) (eons d) (cfgs d), true).

(* ---------------------------------------------------------------------------------------- *)
(* GetAndDeleteEonPublicKeys:
     WITH t1 AS [DELETE FROM outgoing_eon_keys RETURNING all columns]
     SELECT t1.all, eons.activation_block_number, tbc.keypers, tbc.keyper_config_index
     FROM t1 INNER JOIN eons ON t1.eon = eons.eon
             INNER JOIN tendermint_batch_config tbc ON eons.keyper_config_index = tbc.keyper_config_index *)

Record joined := mkJ { j_key : bytes; j_eon : Z; j_act : Z; j_keypers : list bytes; j_kci : Z }.

Definition join_row (es : list eon_row) (cs : list cfg_row) (o : out_row) : list joined :=
  match find_eon es (or_eon o) with
  | Some er =>
      match find_cfg cs (er_kci er) with
      | Some cr => [mkJ (or_key o) (or_eon o) (er_act er) (cr_keypers cr) (cr_kci cr)]
      | None => []
      end
  | None => []
  end.

(* [enum] is the enumeration of the deleted rows (a permutation of [outgoing d]). *)
Definition get_and_delete (d : db) (enum : list out_row) : db * list joined :=
  (mkDb [] (eons d) (cfgs d), flat_map (join_row (eons d) (cfgs d)) enum).

(* ---------------------------------------------------------------------------------------- *)
(* the handler *)

Record hcfg := mkH {
  h_self : bytes;      (* shdb.EncodeAddress(config.GetAddress()) *)
  h_instance : Z;      (* config.InstanceID *)
  h_bcast : bool;      (* options.broadcastEonPubKey (default true, NoBroadcastEonPublicKey clears it) *)
  h_cb : bool          (* options.eonPubkeyHandler != nil (WithEonPublicKeyHandler) *)
}.

(* keyper.EonPublicKey *)
Record pubkey := mkPK { pk_key : bytes; pk_act : Z; pk_kci : Z; pk_eon : Z }.

Inductive call :=
| CBroadcast (instance : Z) (pk : pubkey)   (* Messaging.SendMessage(p2pmsg.EonPublicKey{...}) *)
| CCallback (pk : pubkey).                  (* EonPublicKeyHandlerFunc(ctx, pk) *)

Definition call_pk (c : call) : pubkey :=
  match c with CBroadcast _ pk => pk | CCallback pk => pk end.

Inductive err :=
| ENone
| ENotMember   (* "own keyper index not found for Eon=%d" *)
| ECast        (* "failed safe int cast" *)
| EBroadcast   (* "failed to broadcast eon public key" *)
| ECallback.   (* "failed to handle eon public key" *)

(* database.GetKeyperIndex: exact string comparison against the encoded own address *)
Definition is_member (self : bytes) (keypers : list bytes) : bool :=
  existsb (fun a => bytes_eqb a self) keypers.

(* medley.Int64ToUint64Safe / Int32ToUint64Safe *)
Definition safe_cast (x : Z) : option Z := if x <? 0 then None else Some x.

(* membership test and the three casts, in the order of the source *)
Definition prepare (h : hcfg) (r : joined) : pubkey + err :=
  if negb (is_member (h_self h) (j_keypers r)) then inr ENotMember
  else match safe_cast (j_act r) with
       | None => inr ECast
       | Some act =>
           match safe_cast (j_kci r) with
           | None => inr ECast
           | Some kci =>
               match safe_cast (j_eon r) with
               | None => inr ECast
               | Some e => inl (mkPK (j_key r) act kci e)
               end
           end
       end.

Definition next_answer (answers : list bool) : bool * list bool :=
  match answers with
  | [] => (true, [])
  | a :: r => (a, r)
  end.

(* one iteration of the loop body after the repair: each configured mechanism is called; an
   error of a mechanism is returned at once *)
Definition handle_row (h : hcfg) (r : joined) (answers : list bool)
  : list (call * bool) * list bool * err :=
  match prepare h r with
  | inr e => ([], answers, e)
  | inl pk =>
      let '(cs1, ans1, e1) :=
        if h_bcast h then
          let (a, ans') := next_answer answers in
          ([(CBroadcast (h_instance h) pk, a)], ans', if a then ENone else EBroadcast)
        else ([], answers, ENone) in
      match e1 with
      | ENone =>
          if h_cb h then
            let (a, ans') := next_answer ans1 in
            (cs1 ++ [(CCallback pk, a)], ans', if a then ENone else ECallback)
          else (cs1, ans1, ENone)
      | _ => (cs1, ans1, e1)
      end
  end.

(* the loop: returns on the first error, otherwise goes on to the next row *)
Fixpoint handle_rows (h : hcfg) (rows : list joined) (answers : list bool)
  : list (call * bool) * err :=
  match rows with
  | [] => ([], ENone)
  | r :: rest =>
      let '(cs, ans', e) := handle_row h r answers in
      match e with
      | ENone => let (cs2, e2) := handle_rows h rest ans' in (cs ++ cs2, e2)
      | _ => (cs, e)
      end
  end.

(* the loop on the pinned tree (D13): `return errors.Wrap(err, ...)` in both branches, so the
   function returns after the first row whose mechanism was called - with nil when the call
   succeeded - and the callback is never reached when broadcasting is on. *)
Fixpoint legacy_handle_rows (h : hcfg) (rows : list joined) (answers : list bool)
  : list (call * bool) * err :=
  match rows with
  | [] => ([], ENone)
  | r :: rest =>
      match prepare h r with
      | inr e => ([], e)
      | inl pk =>
          if h_bcast h then
            let (a, _) := next_answer answers in
            ([(CBroadcast (h_instance h) pk, a)], if a then ENone else EBroadcast)
          else if h_cb h then
            let (a, _) := next_answer answers in
            ([(CCallback pk, a)], if a then ENone else ECallback)
          else legacy_handle_rows h rest answers
      end
  end.

(* ---------------------------------------------------------------------------------------- *)
(* histories *)

Inductive op :=
| OpCfg (kci : Z) (keypers : list bytes)        (* a keyper set becomes known *)
| OpEon (e act kci : Z)                         (* an eon is started for a keyper set *)
| OpGen (key : bytes) (e : Z)                   (* finalizeDKG records a successful key generation *)
| OpTick (enum : list out_row) (answers : list bool)    (* one polling tick *)
| OpTickFails.     (* a polling tick whose query fails (connection loss, ...): nothing is deleted *)

Inductive outcome :=
| OIns (inserted : bool)
| OTick (calls : list (call * bool)) (e : err)
| OQueryFailed.    (* the error of the query is returned, no mechanism is called *)

Definition loop_fn := hcfg -> list joined -> list bool -> list (call * bool) * err.

Definition step_gen (loopf : loop_fn) (h : hcfg) (d : db) (o : op) : db * outcome :=
  match o with
  | OpCfg kci ks => let (d', b) := insert_cfg d kci ks in (d', OIns b)
  | OpEon e act kci => let (d', b) := insert_eon d e act kci in (d', OIns b)
  | OpGen key e => let (d', b) := insert_outgoing d key e in (d', OIns b)
  | OpTick enum answers =>
      let (d', rows) := get_and_delete d enum in
      let (cs, e) := loopf h rows answers in
      (d', OTick cs e)
  | OpTickFails => (d, OQueryFailed)
  end.

Fixpoint run_gen (loopf : loop_fn) (h : hcfg) (d : db) (ops : list op) : db * list outcome :=
  match ops with
  | [] => (d, [])
  | o :: r =>
      let (d1, out) := step_gen loopf h d o in
      let (d2, outs) := run_gen loopf h d1 r in
      (d2, out :: outs)
  end.

Definition step := step_gen handle_rows.
Definition run := run_gen handle_rows.
Definition legacy_step := step_gen legacy_handle_rows.
Definition legacy_run := run_gen legacy_handle_rows.

(* ---------------------------------------------------------------------------------------- *)
(* the producer: the shuttermint observer (smobserver) working off a run of blocks.

   What is modelled of SyncAppWithDB / handleBlock / shiftPhases / finalizeDKG / Save is only
   what reaches the three tables the handler reads: a BatchConfig event inserts a keyper set, an
   EonStarted event inserts an eon, and every key generation that finishes inserts - if it
   succeeded - exactly one row (key, eon) into outgoing_eon_keys, before the observer's
   transaction for that block commits; any number of key generations may finish in one block,
   in any order (shiftPhases ranges over a map).  The key generation itself (puredkg, the phases,
   the messages) is not modelled here: its outcome is an input. *)

Record dkg_outcome := mkRes { r_eon : Z; r_success : bool; r_key : bytes }.

(* finalizeDKG: dkg_result gets a row in either case, outgoing_eon_keys only on success *)
Definition finalize_one (d : db) (r : dkg_outcome) : db :=
  if r_success r then fst (insert_outgoing d (r_key r) (r_eon r)) else d.

(* the key generations finishing in the blocks of one sync, in the order they are finalized *)
Definition finalize_all (d : db) (rs : list dkg_outcome) : db := fold_left finalize_one rs d.

(* one Sync of the observer: the keyper sets and eons the synced blocks announce, the key
   generations that finish in them *)
Definition sync_blocks (d : db) (new_cfgs : list cfg_row) (new_eons : list eon_row)
           (rs : list dkg_outcome) : db :=
  let d1 := fold_left (fun d c => fst (insert_cfg d (cr_kci c) (cr_keypers c))) new_cfgs d in
  let d2 := fold_left (fun d e => fst (insert_eon d (er_eon e) (er_act e) (er_kci e))) new_eons d1 in
  finalize_all d2 rs.

(* the same as operations of a history *)
Definition ops_of_sync (new_cfgs : list cfg_row) (new_eons : list eon_row) (rs : list dkg_outcome)
  : list op :=
  map (fun c => OpCfg (cr_kci c) (cr_keypers c)) new_cfgs ++
  map (fun e => OpEon (er_eon e) (er_act e) (er_kci e)) new_eons ++
  flat_map (fun r => if r_success r then [OpGen (r_key r) (r_eon r)] else []) rs.

(* the successful key generations a list of outcomes records *)
Definition successes (rs : list dkg_outcome) : list out_row :=
  flat_map (fun r => if r_success r then [mkOut (r_key r) (r_eon r)] else []) rs.

(* histories from the key generation on: syncs of the observer and polling ticks *)
Inductive pop :=
| PSync (new_cfgs : list cfg_row) (new_eons : list eon_row) (rs : list dkg_outcome)
| PTick (enum : list out_row) (answers : list bool)
| PTickFails.

Definition ops_of_pop (p : pop) : list op :=
  match p with
  | PSync nc ne rs => ops_of_sync nc ne rs
  | PTick enum answers => [OpTick enum answers]
  | PTickFails => [OpTickFails]
  end.

Definition ops_of_pops (ps : list pop) : list op := flat_map ops_of_pop ps.

(* every key generation the history records as successful (the dkg_result rows with success) *)
Definition all_successes (ps : list pop) : list out_row :=
  flat_map (fun p => match p with PSync _ _ rs => successes rs | _ => [] end) ps.

(* ---------------------------------------------------------------------------------------- *)
(* vocabulary of the property *)

(* what a pending or recorded key must be published as, given the keyper's tables: the eon's
   activation block, the keyper-set index and the eon number - if the eon and its set are
   known and the keyper is in the set *)
Definition stamp (h : hcfg) (es : list eon_row) (cs : list cfg_row) (o : out_row) : list pubkey :=
  match find_eon es (or_eon o) with
  | Some er =>
      match find_cfg cs (er_kci er) with
      | Some cr =>
          if is_member (h_self h) (cr_keypers cr)
          then [mkPK (or_key o) (er_act er) (er_kci er) (or_eon o)] else []
      | None => []
      end
  | None => []
  end.

Definition stamp_all (h : hcfg) (es : list eon_row) (cs : list cfg_row) (os : list out_row) : list pubkey :=
  flat_map (stamp h es cs) os.

(* the successful key generations a history records, in order *)
Definition generated (ops : list op) : list out_row :=
  flat_map (fun o => match o with OpGen key e => [mkOut key e] | _ => [] end) ops.

(* the eons and keyper sets a history makes known (first insertion wins, as in the tables) *)
Definition learn (d : db) (o : op) : db :=
  match o with
  | OpCfg kci ks => fst (insert_cfg d kci ks)
  | OpEon e act kci => fst (insert_eon d e act kci)
  | _ => d
  end.
Definition tables_of (ops : list op) : db := fold_left learn ops empty_db.

(* the multiset the property speaks about: one entry per successful key generation of a set
   the keyper belongs to, with the four fields it has to be published with *)
Definition expected (h : hcfg) (ops : list op) : list pubkey :=
  stamp_all h (eons (tables_of ops)) (cfgs (tables_of ops)) (generated ops).

Inductive mech := MBroadcast | MCallback.

Definition call_mech (c : call) : mech :=
  match c with CBroadcast _ _ => MBroadcast | CCallback _ => MCallback end.
Definition mech_eqb (a b : mech) : bool :=
  match a, b with MBroadcast, MBroadcast | MCallback, MCallback => true | _, _ => false end.

(* the keys a mechanism was handed and accepted, in order *)
Definition accepted_by (m : mech) (calls : list (call * bool)) : list pubkey :=
  flat_map (fun ca => if mech_eqb (call_mech (fst ca)) m && snd ca then [call_pk (fst ca)] else []) calls.

Definition calls_of (outs : list outcome) : list (call * bool) :=
  flat_map (fun o => match o with OTick cs _ => cs | _ => [] end) outs.

Definition handed_to (m : mech) (outs : list outcome) : list pubkey :=
  accepted_by m (calls_of outs).

Definition tick_errors (outs : list outcome) : list err :=
  flat_map (fun o => match o with OTick _ e => [e] | _ => [] end) outs.

Definition pending_pks (h : hcfg) (d : db) : list pubkey :=
  stamp_all h (eons d) (cfgs d) (outgoing d).

(* a row the keyper can have recorded: its eon and the eon's keyper set are known, the keyper
   is in the set (handleEonStarted starts a DKG only then), and the numbers are those of
   bigint / integer columns written from unsigned values *)
Definition good_row (h : hcfg) (es : list eon_row) (cs : list cfg_row) (o : out_row) : Prop :=
  exists er cr, find_eon es (or_eon o) = Some er /\ find_cfg cs (er_kci er) = Some cr /\
                is_member (h_self h) (cr_keypers cr) = true /\
                0 <= or_eon o /\ 0 <= er_act er /\ 0 <= er_kci er.

(* well-formed histories: a key generation is recorded for a known eon of a known set the
   keyper belongs to, not while a key of the same eon is still pending (the insert would be
   refused), and every tick enumerates exactly the pending rows, in any order *)
Definition wf_op (h : hcfg) (d : db) (o : op) : Prop :=
  match o with
  | OpGen key e => good_row h (eons d) (cfgs d) (mkOut key e) /\ pending_eon (outgoing d) e = false
  | OpTick enum _ => Permutation enum (outgoing d)
  | _ => True
  end.

(* the database after an operation (it does not depend on what the loop does with the rows) *)
Definition db_after (d : db) (o : op) : db :=
  match o with
  | OpCfg kci ks => fst (insert_cfg d kci ks)
  | OpEon e act kci => fst (insert_eon d e act kci)
  | OpGen key e => fst (insert_outgoing d key e)
  | OpTick enum _ => fst (get_and_delete d enum)
  | OpTickFails => d
  end.

Fixpoint wf_from (h : hcfg) (d : db) (ops : list op) : Prop :=
  match ops with
  | [] => True
  | o :: r => wf_op h d o /\ wf_from h (db_after d o) r
  end.

(* the weakest assumption about a history: every tick enumerates exactly the pending rows
   (whatever they are) *)
Fixpoint ticks_enumerate (d : db) (ops : list op) : Prop :=
  match ops with
  | [] => True
  | o :: r =>
      match o with OpTick enum _ => Permutation enum (outgoing d) | _ => True end /\
      ticks_enumerate (db_after d o) r
  end.

(* the mechanism accepts everything it is handed *)
Definition accepting (ops : list op) : Prop :=
  forall enum answers, In (OpTick enum answers) ops -> forallb (fun a => a) answers = true.

(* a state as well-formed histories produce it *)
Definition wf_db (h : hcfg) (d : db) : Prop :=
  Forall (good_row h (eons d) (cfgs d)) (outgoing d) /\ NoDup (map or_eon (outgoing d)).

(* the calls made for a key that every configured mechanism accepts *)
Definition calls_ok (h : hcfg) (pk : pubkey) : list (call * bool) :=
  (if h_bcast h then [(CBroadcast (h_instance h) pk, true)] else []) ++
  (if h_cb h then [(CCallback pk, true)] else []).
