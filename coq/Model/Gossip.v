(* C04 / C05 - model of gossip message validation and handling of the keyper.

   Transcribed function by function from
     keyper/epochkghandler/keyshare.go   DecryptionKeyShareHandler.ValidateMessage, checkKeyShares,
                                         HandleMessage (through Model/EpochKGHandler.v)
     keyper/epochkghandler/key.go        DecryptionKeyHandler.ValidateMessage, checkKeysErrors, HandleMessage
     keyper/database/extend.go           ( *Queries).GetKeyperIndex, InsertDecryptionKeysMsg
     keyper/database/sql/queries/keyper.sql   GetBatchConfig, GetDKGResultForKeyperConfigIndex, GetDecryptionKey
     keyperimpl/gnosis/handlers.go       DecryptionKeySharesHandler.ValidateMessage / HandleMessage,
                                         DecryptionKeysHandler.ValidateMessage / HandleMessage
     keyperimpl/shutterservice/handlers.go    the same four functions
     keyperimpl/{gnosis,shutterservice}/messagingmiddleware.go   WrappedMessageHandler.HandleMessage,
                                         interceptMessage (its panic sites)
     p2p/message.go, p2p/messaging.go    UnmarshalPubsubMessage, addValidatorImpl, GetCombinedValidator
     p2pmsg/messages.go                  Unmarshal (version / type checks), ( *DecryptionKeyShares).Validate,
                                         ( *DecryptionKeys).Validate
   Definitions only; proofs are in Proofs/Gossip*.v.  The signature rule of the Gnosis and service
   keys messages is NOT modelled again: Model/KeysSig.v (property C06) is imported and its
   validate_basic / validate_sigs / check_signature are called.

   Decoded messages are records.  Protobuf is an oracle: the driver decodes the envelope with the
   repository's own functions and hands over what came out (see [wire]).

   Cryptography is idealised with the labels of Model/EpochKGLabels.v: the group element carried
   by a share or key is  LShare e i x  (the share of keyper i of eon key set e for identity x),
   LKey e x  (the epoch secret key of key set e for x), or LOther; next to the label the raw
   bytes are kept, because key.go compares raw bytes with the stored key. *)
From Coq Require Import List NArith ZArith Bool Lia.
From Verif Require Import Lib.Bytes Model.EpochKG Model.EpochKGLabels Model.EpochKGHandler.
From Verif Require Export Model.KeysSig.
Import ListNotations.

(* ------------------------------------------------------------------------------------- *)
(* Values and messages *)

(* KeyShare.Share / Key.Key: the bytes and what ( *EpochSecretKeyShare).Unmarshal makes of them
   (None: Unmarshal returns an error - a point of the curve outside G1; every byte string that
   blst cannot uncompress decodes, as the code stands, to the point at infinity = LOther) *)
Record kv := mkKV { kv_bytes : bytes; kv_lbl : option lbl }.

(* shcrypto.VerifyEpochSecretKeyShare(v, PublicKeyShares[i] of key set ks, ComputeEpochID(x)) *)
Definition verify_share (ks i : N) (x : bytes) (v : lbl) : bool :=
  match v with
  | LShare e j y => (e =? ks)%N && (j =? i)%N && bytes_eqb y x
  | _ => false
  end.

(* shcrypto.VerifyEpochSecretKey(v, eon public key of key set ks, x) *)
Definition verify_key (ks : N) (x : bytes) (v : lbl) : bool :=
  match v with
  | LKey e y => (e =? ks)%N && bytes_eqb y x
  | _ => false
  end.

(* the `Extra` oneof of DecryptionKeyShares *)
Inductive shares_extra :=
| SxNone
| SxGnosis (slot txp : N) (sg : csig)     (* *DecryptionKeyShares_Gnosis with a non-nil Gnosis *)
| SxGnosisNil                             (* ... with Gnosis == nil (not producible by the wire decoder) *)
| SxService (sg : csig)
| SxServiceNil
| SxOptimism.

(* the `Extra` oneof of DecryptionKeys *)
Inductive keys_extra :=
| KxNone
| KxGnosis (slot txp : N) (signers : list N) (sigs : list csig)
| KxGnosisNil
| KxService (signers : list N) (sigs : list csig)
| KxServiceNil
| KxOptimism.

Record shares_msg := mkSharesMsg {
  s_inst : N; s_eon : N; s_kidx : N;          (* uint64 *)
  s_shares : list (bytes * kv);               (* IdentityPreimage, Share *)
  s_extra : shares_extra
}.

Record keys_msg := mkKeysMsg {
  km_inst : N; km_eon : N;
  km_keys : list (bytes * kv);                 (* IdentityPreimage, Key *)
  km_extra : keys_extra
}.

(* ------------------------------------------------------------------------------------- *)
(* Database state read by the core validators *)

(* dkg_result row: success = false | pure_result that DecodePureDKGResult refuses |
   a decoded puredkg.Result whose PublicKey / PublicKeyShares are those of key set e,
   n = len(PublicKeyShares), t = Threshold *)
Inductive dkg := DkgBad | DkgGarbled | DkgOk (e n t : N).

Record cstate := mkCState {
  c_instance : N;                        (* config.GetInstanceID() *)
  c_maxkeys : N;                         (* config.GetMaxNumKeysPerMessage(), uint64 *)
  c_self : N;                            (* config.GetAddress(), as the label of its encoding *)
  c_configs : list (Z * list N);         (* tendermint_batch_config: keyper_config_index (integer), keypers *)
  c_eons : list (Z * Z);                 (* eons: eon, keyper_config_index (both bigint) *)
  c_dkg : list (Z * dkg);                (* dkg_result by eon *)
  c_keys : list (Z * bytes * bytes);     (* decryption_key: eon, epoch_id, decryption_key *)
  c_shares : list (share_row kv)         (* decryption_key_share *)
}.

Fixpoint zlookup {A} (l : list (Z * A)) (k : Z) : option A :=
  match l with
  | [] => None
  | (k', a) :: r => if (k' =? k)%Z then Some a else zlookup r k
  end.

(* SELECT max(eon) FROM eons WHERE keyper_config_index = $1   (None: NULL) *)
Fixpoint max_eon (eons : list (Z * Z)) (kci : Z) : option Z :=
  match eons with
  | [] => None
  | (e, k) :: r =>
      let m := max_eon r kci in
      if (k =? kci)%Z then
        match m with Some e' => Some (Z.max e e') | None => Some e end
      else m
  end.

(* GetDKGResultForKeyperConfigIndex: SELECT * FROM dkg_result WHERE eon = (SELECT max(eon) ...) *)
Definition dkg_for_config (st : cstate) (kci : Z) : option dkg :=
  match max_eon (c_eons st) kci with
  | None => None
  | Some e => zlookup (c_dkg st) e
  end.

(* GetDecryptionKey(eon, epoch_id) *)
Fixpoint stored_key (tbl : list (Z * bytes * bytes)) (eon : Z) (x : bytes) : option bytes :=
  match tbl with
  | [] => None
  | (e, y, k) :: r => if (e =? eon)%Z && bytes_eqb y x then Some k else stored_key r eon x
  end.

(* ------------------------------------------------------------------------------------- *)
(* Verdicts *)

Inductive greason :=
| GS (r : reason)        (* a rejection site that Model/KeysSig.v already names *)
| GNoBatchConfig         (* GetKeyperIndex: "failed to get config %d from db" *)
| GNotKeyper             (* !isKeyper *)
| GNoDkg                 (* "no DKG result found for eon" *)
| GDkgFailed             (* "no successful DKG result found for eon" *)
| GDkgDecode             (* "error while decoding pure DKG result" *)
| GSenderRange           (* "keyper index %d out of range" (repaired code) *)
| GShareInvalid          (* "cannot verify secret key share" *)
(* snapshot keyper, Primev (Model/GossipMisc.v) *)
| GBlockOverflow         (* "block number %d overflows int64" *)
| GNoCollator            (* "got decryption trigger with no collator for given block number" *)
| GCollatorDecode        (* "error while converting collator from string to address" *)
| GTriggerSigError       (* "error while verifying decryption trigger signature" *)
| GTriggerSigInvalid     (* "decryption trigger signature invalid" *)
| GCommitLens.           (* "number of identities (%d) does not match number of tx hashes (%d)" *)

Inductive gverdict := GAccept | GReject (r : greason) | GPanic.

Definition lift (v : verdict) : gverdict :=
  match v with Accept => GAccept | Reject r => GReject (GS r) | Panic => GPanic end.

Definition greason_code (r : greason) : N :=
  match r with
  | GS r => reason_code r
  | GNoBatchConfig => 101 | GNotKeyper => 102 | GNoDkg => 103 | GDkgFailed => 104
  | GDkgDecode => 105 | GSenderRange => 106 | GShareInvalid => 107
  | GBlockOverflow => 108 | GNoCollator => 109 | GCollatorDecode => 110
  | GTriggerSigError => 111 | GTriggerSigInvalid => 112 | GCommitLens => 113
  end%N.

Definition gverdict_eqb (a b : gverdict) : bool :=
  match a, b with
  | GAccept, GAccept => true
  | GPanic, GPanic => true
  | GReject r, GReject r' => N.eqb (greason_code r) (greason_code r')
  | _, _ => false
  end.

(* ------------------------------------------------------------------------------------- *)
(* The part both core ValidateMessage functions share, up to the call of the check loop:
   instance id, eon <= MaxInt64, GetKeyperIndex (batch config looked up under int32(eon)!),
   membership, GetDKGResultForKeyperConfigIndex (under the full int64), success, decode,
   0 < count <= int(max). Returns the key set label and len(PublicKeyShares). *)
Inductive prelude := PreReject (r : greason) | PreOk (ks n : N).

Definition validate_prelude (st : cstate) (inst eon : N) (count : nat) : prelude :=
  if negb (inst =? c_instance st)%N then PreReject (GS RInstance)
  else if (max_int64 <? eon)%N then PreReject (GS REonOverflow)
  else
    let e := Z.of_N eon in
    match zlookup (c_configs st) (to_i32 e) with
    | None => PreReject GNoBatchConfig
    | Some keypers =>
        if negb (existsb (N.eqb (c_self st)) keypers) then PreReject GNotKeyper
        else
          match dkg_for_config st e with
          | None => PreReject GNoDkg
          | Some DkgBad => PreReject GDkgFailed
          | Some DkgGarbled => PreReject GDkgDecode
          | Some (DkgOk ks n _) =>
              if (count =? 0)%nat then PreReject (GS RNoKeysCommon)
              else if (int_of_u64 (c_maxkeys st) <? Z.of_nat count)%Z then PreReject (GS RTooManyKeys)
              else PreOk ks n
          end
    end.

(* checkKeyShares, the loop: decode, verify against PublicKeyShares[KeyperIndex], ordering *)
Fixpoint shares_loop (ks kidx : N) (prev : option bytes) (l : list (bytes * kv)) : gverdict :=
  match l with
  | [] => GAccept
  | (x, v) :: r =>
      match kv_lbl v with
      | None => GReject (GS RKeyDecode)
      | Some lb =>
          if negb (verify_share ks kidx x lb) then GReject GShareInvalid
          else if (match prev with Some p => bytes_ltb x p | None => false end)
               then GReject (GS RKeysUnordered)
               else shares_loop ks kidx (Some x) r
      end
  end.

(* checkKeyShares of the repaired code (/repo commit "fix: key shares validation rejects a
   keyper index outside the DKG result"): range test in front of the loop *)
Definition check_key_shares (ks n : N) (m : shares_msg) : gverdict :=
  if (n <=? s_kidx m)%N then GReject GSenderRange
  else shares_loop ks (s_kidx m) None (s_shares m).

(* checkKeyShares of the pinned tree: PublicKeyShares[keyShare.KeyperIndex] is evaluated for
   every share, after its decoding, without a range test *)
Fixpoint legacy_shares_loop (ks n kidx : N) (prev : option bytes) (l : list (bytes * kv)) : gverdict :=
  match l with
  | [] => GAccept
  | (x, v) :: r =>
      match kv_lbl v with
      | None => GReject (GS RKeyDecode)
      | Some lb =>
          if (n <=? kidx)%N then GPanic
          else if negb (verify_share ks kidx x lb) then GReject GShareInvalid
          else if (match prev with Some p => bytes_ltb x p | None => false end)
               then GReject (GS RKeysUnordered)
               else legacy_shares_loop ks n kidx (Some x) r
      end
  end.

Definition legacy_check_key_shares (ks n : N) (m : shares_msg) : gverdict :=
  legacy_shares_loop ks n (s_kidx m) None (s_shares m).

(* DecryptionKeyShareHandler.ValidateMessage *)
Definition validate_shares (st : cstate) (m : shares_msg) : gverdict :=
  match validate_prelude st (s_inst m) (s_eon m) (length (s_shares m)) with
  | PreReject r => GReject r
  | PreOk ks n => check_key_shares ks n m
  end.

Definition legacy_validate_shares (st : cstate) (m : shares_msg) : gverdict :=
  match validate_prelude st (s_inst m) (s_eon m) (length (s_shares m)) with
  | PreReject r => GReject r
  | PreOk ks n => legacy_check_key_shares ks n m
  end.

(* checkKeysErrors: decode, ordering, stored key (byte equality -> continue), verify *)
Fixpoint keys_loop (tbl : list (Z * bytes * bytes)) (ks : N) (eon : Z) (prev : option bytes)
         (l : list (bytes * kv)) : gverdict :=
  match l with
  | [] => GAccept
  | (x, v) :: r =>
      match kv_lbl v with
      | None => GReject (GS RKeyDecode)
      | Some lb =>
          if (match prev with Some p => bytes_ltb x p | None => false end)
          then GReject (GS RKeysUnordered)
          else
            let same := match stored_key tbl eon x with
                        | Some k => bytes_eqb (kv_bytes v) k
                        | None => false
                        end in
            if same then keys_loop tbl ks eon (Some x) r
            else if verify_key ks x lb then keys_loop tbl ks eon (Some x) r
            else GReject (GS RKeyInvalid)
      end
  end.

(* DecryptionKeyHandler.ValidateMessage *)
Definition validate_keys (st : cstate) (m : keys_msg) : gverdict :=
  match validate_prelude st (km_inst m) (km_eon m) (length (km_keys m)) with
  | PreReject r => GReject r
  | PreOk ks _ => keys_loop (c_keys st) ks (Z.of_N (km_eon m)) None (km_keys m)
  end.

(* ------------------------------------------------------------------------------------- *)
(* The flavour validators (Gnosis, Shutter service) *)

Record fstate := mkFState {
  f_core : cstate;
  f_ksets : list (Z * keyperset)        (* chainobserver keyper_set by keyper_config_index (bigint) *)
}.

Definition sh_ids (m : shares_msg) : list bytes := map fst (s_shares m).
Definition k_ids (m : keys_msg) : list bytes := map fst (km_keys m).

(* the common tail of both DecryptionKeySharesHandler.ValidateMessage: keyper set lookup under
   int64(Eon) (no overflow test), index range, address decoding, signature data, signature *)
Definition validate_share_sig (st : fstate) (m : shares_msg) (t : tuple) (sg : csig) : gverdict :=
  match zlookup (f_ksets st) (int_of_u64 (s_eon m)) with
  | None => GReject (GS RNoKeyperSet)
  | Some ks =>
      if (N.of_nat (length (ks_keypers ks)) <=? s_kidx m)%N then GReject (GS ROutOfRange)
      else
        match nth_error (ks_keypers ks) (N.to_nat (s_kidx m)) with
        | None => GPanic                                       (* keyperSet.Keypers[KeyperIndex] *)
        | Some None => GReject (GS RSubset)                    (* shdb.DecodeAddress *)
        | Some (Some a) =>
            if (1024 <? length (tuple_ids t))%nat then GReject (GS RTooManyIds)
            else
              match check_signature tuple tuple_eqb (fun t => t) t sg a with
              | None => GReject (GS RCheckError)
              | Some false => GReject (GS RInvalidSig)
              | Some true => GAccept
              end
        end
  end.

(* gnosis.DecryptionKeySharesHandler.ValidateMessage *)
Definition validate_shares_gnosis (st : fstate) (m : shares_msg) : gverdict :=
  match s_extra m with
  | SxGnosis slot txp sg =>
      if (max_int64 <? slot)%N then GReject (GS RSlotTooLarge)
      else if (max_int64 <? txp)%N then GReject (GS RTxpTooLarge)
      else validate_share_sig st m (TGnosis (s_inst m) (s_eon m) slot txp (sh_ids m)) sg
  | SxGnosisNil => GReject (GS RExtraNil)
  | _ => GReject (GS RExtraType)
  end.

(* shutterservice.DecryptionKeySharesHandler.ValidateMessage *)
Definition validate_shares_service (st : fstate) (m : shares_msg) : gverdict :=
  match s_extra m with
  | SxService sg => validate_share_sig st m (TService (s_inst m) (s_eon m) (sh_ids m)) sg
  | SxServiceNil => GReject (GS RExtraNil)
  | _ => GReject (GS RExtraType)
  end.

(* projection of a keys message onto the record of Model/KeysSig.v (the key labels of that
   record are only read by the access node, see GossipMisc.v) *)
Definition extra_kind_of (x : keys_extra) : extra_kind :=
  match x with
  | KxGnosis _ _ _ _ => ExGnosis
  | KxGnosisNil => ExGnosisNil
  | KxService _ _ | KxServiceNil => ExService
  | KxNone | KxOptimism => ExNone
  end.

Definition to_keysmsg (lab : bytes -> kv -> keylabel) (m : keys_msg) : keysmsg :=
  {| m_inst := km_inst m; m_eon := km_eon m; m_extra := extra_kind_of (km_extra m);
     m_slot := match km_extra m with KxGnosis s _ _ _ => s | _ => 0%N end;
     m_txp := match km_extra m with KxGnosis _ p _ _ => p | _ => 0%N end;
     m_keys := map (fun p => (fst p, lab (fst p) (snd p))) (km_keys m) |}.

Definition no_label (_ : bytes) (_ : kv) : keylabel := KeyOk.

Definition k_signers (m : keys_msg) : list N :=
  match km_extra m with KxGnosis _ _ s _ | KxService s _ => s | _ => [] end.
Definition k_sigs (m : keys_msg) : list csig :=
  match km_extra m with KxGnosis _ _ _ s | KxService _ s => s | _ => [] end.

(* gnosis.DecryptionKeysHandler.ValidateMessage = Model/KeysSig.v keyper_validate_gnosis over
   the database lookup GetKeyperSetByKeyperConfigIndex(int64(keys.Eon)) *)
Definition validate_keys_gnosis (st : fstate) (m : keys_msg) : gverdict :=
  lift (c_keyper_validate_gnosis (zlookup (f_ksets st) (int_of_u64 (km_eon m)))
                                 (to_keysmsg no_label m) (k_signers m) (k_sigs m)).

(* shutterservice.DecryptionKeysHandler.ValidateMessage *)
Definition validate_keys_service (st : fstate) (m : keys_msg) : gverdict :=
  match km_extra m with
  | KxService signers sigs =>
      match zlookup (f_ksets st) (int_of_u64 (km_eon m)) with
      | None => GReject (GS RNoKeyperSet)
      | Some ks => lift (c_validate_sigs Service ks (to_keysmsg no_label m) signers sigs)
      end
  | KxServiceNil => GReject (GS RExtraNil)
  | _ => GReject (GS RExtraType)
  end.

(* ------------------------------------------------------------------------------------- *)
(* Handlers.  For C05 only the panic sites matter; the database effects of the flavour
   handlers are not modelled (result [HDone]: returned, with or without an error).  The core
   key-share handler is the model of C01 (Model/EpochKGHandler.v), instantiated with labels. *)

Inductive hres := HFin | HCrash.

Definition hres_eqb (a b : hres) : bool :=
  match a, b with HFin, HFin | HCrash, HCrash => true | _, _ => false end.

(* the dkg_result row as Model/EpochKGHandler.v sees it, and the key set its shares verify
   against (the handler re-verifies every stored share against PublicKeyShares) *)
Definition hdkg_rows (st : cstate) (eon : Z) : list (Z * dkg_row) :=
  match dkg_for_config st eon with
  | None => []
  | Some DkgBad => [(eon, DkgFailed)]
  | Some DkgGarbled => [(eon, DkgUndecodable)]
  | Some (DkgOk _ n t) => [(eon, DkgResult n t)]
  end.

Definition hkeyset (st : cstate) (eon : Z) : N :=
  match dkg_for_config st eon with Some (DkgOk ks _ _) => ks | _ => 0%N end.

(* the decryption_key table with the value replaced by a label ([canon]: what the stored bytes
   are); the handler only tests existence and appends *)
Definition hkey_rows (st : cstate) (canon : bytes -> lbl) : list (key_row lbl) :=
  map (fun r => match r with (e, x, k) => mkKeyRow e x (canon k) end) (c_keys st).

Definition hdb (st : cstate) (canon : bytes -> lbl) (eon : Z) : db lbl kv :=
  mkDb (c_shares st) (hkey_rows st canon) (hdkg_rows st eon).

Definition hmsg (m : shares_msg) : msg kv := mkMsg (s_eon m) (s_kidx m) (s_shares m).

(* DecryptionKeyShareHandler.HandleMessage on the state, for a row order oracle *)
Definition handle_shares_core (o : oracle kv) (canon : bytes -> lbl) (st : cstate) (m : shares_msg)
  : db lbl kv * hout lbl :=
  let eon := i64_of_u64 (s_eon m) in
  handle_message lbl kv (verify_share (hkeyset st eon)) combine_l kv_lbl o (hdb st canon eon) (hmsg m).

Definition hres_of_hout (h : hout lbl) : hres :=
  match h with HPanic => HCrash | _ => HFin end.

(* DecryptionKeyHandler.HandleMessage: InsertDecryptionKeysMsg, no indexing, no assertion *)
Definition handle_keys_core (st : cstate) (m : keys_msg) : hres := HFin.

(* the messaging middleware in front of the core handlers (WrappedMessageHandler): every
   message the wrapped handler returns goes through interceptMessage; for a DecryptionKeys
   message with a non-nil Extra the Gnosis middleware calls advanceTxPointer, which asserts
   Extra.( *DecryptionKeys_Gnosis) and reads fields of .Gnosis *)
Definition intercept_keys_gnosis (x : keys_extra) : hres :=
  match x with
  | KxNone => HFin
  | KxGnosis _ _ _ _ => HFin
  | _ => HCrash
  end.

(* the only message the core handlers return is the DecryptionKeys message of the key-share
   handler, built without Extra *)
Definition core_out_extra : keys_extra := KxNone.

(* gnosis.DecryptionKeySharesHandler.HandleMessage: keyShares.Extra.( *..._Gnosis).Gnosis, then
   extra.Slot ... ; nothing is indexed afterwards *)
Definition handle_shares_gnosis (m : shares_msg) : hres :=
  match s_extra m with SxGnosis _ _ _ => HFin | _ => HCrash end.

Definition handle_shares_service (m : shares_msg) : hres :=
  match s_extra m with SxService _ => HFin | _ => HCrash end.

(* for i, keyperIndex := range extra.SignerIndices { ... extra.Signatures[i] ... } *)
Fixpoint sig_index_loop (signers : list N) (sigs : list csig) (i : nat) : hres :=
  match signers with
  | [] => HFin
  | _ :: r => match nth_error sigs i with
              | None => HCrash
              | Some _ => sig_index_loop r sigs (S i)
              end
  end.

(* gnosis.DecryptionKeysHandler.HandleMessage.  A database error returns before or inside the
   loop: the model takes the path on which every statement succeeds (the one that reaches all
   the indexing). *)
Definition handle_keys_gnosis (m : keys_msg) : hres :=
  match km_extra m with
  | KxGnosis _ _ signers sigs => sig_index_loop signers sigs 0
  | _ => HCrash
  end.

Definition handle_keys_service (m : keys_msg) : hres :=
  match km_extra m with
  | KxService signers sigs => sig_index_loop signers sigs 0
  | _ => HCrash
  end.

(* ------------------------------------------------------------------------------------- *)
(* Cost: database statements and pairing / signature-recovery checks, counted along the same
   control flow as the validators above (C05_cost_bounded_partial).  The statement count of
   the core validators is also observed (pgfake counts the Execute messages). *)

Record cost := mkCost { db_stmts : nat; crypto_ops : nat }.
Definition cost_add (a b : cost) : cost :=
  mkCost (db_stmts a + db_stmts b) (crypto_ops a + crypto_ops b).

(* GetBatchConfig, GetDKGResultForKeyperConfigIndex *)
Definition cost_prelude (st : cstate) (inst eon : N) : cost :=
  if negb (inst =? c_instance st)%N then mkCost 0 0
  else if (max_int64 <? eon)%N then mkCost 0 0
  else
    match zlookup (c_configs st) (to_i32 (Z.of_N eon)) with
    | None => mkCost 1 0
    | Some keypers => if negb (existsb (N.eqb (c_self st)) keypers) then mkCost 1 0 else mkCost 2 0
    end.

(* one pairing comparison per share that is reached *)
Fixpoint cost_shares_loop (ks kidx : N) (prev : option bytes) (l : list (bytes * kv)) : cost :=
  match l with
  | [] => mkCost 0 0
  | (x, v) :: r =>
      match kv_lbl v with
      | None => mkCost 0 0
      | Some lb =>
          if negb (verify_share ks kidx x lb) then mkCost 0 1
          else if (match prev with Some p => bytes_ltb x p | None => false end) then mkCost 0 1
          else cost_add (mkCost 0 1) (cost_shares_loop ks kidx (Some x) r)
      end
  end.

Definition cost_validate_shares (st : cstate) (m : shares_msg) : cost :=
  match validate_prelude st (s_inst m) (s_eon m) (length (s_shares m)) with
  | PreReject _ => cost_prelude st (s_inst m) (s_eon m)
  | PreOk ks n =>
      cost_add (cost_prelude st (s_inst m) (s_eon m))
               (if (n <=? s_kidx m)%N then mkCost 0 0
                else cost_shares_loop ks (s_kidx m) None (s_shares m))
  end.

(* one GetDecryptionKey per key that is reached, one VerifyEpochSecretKey unless it is the
   stored key *)
Fixpoint cost_keys_loop (tbl : list (Z * bytes * bytes)) (ks : N) (eon : Z) (prev : option bytes)
         (l : list (bytes * kv)) : cost :=
  match l with
  | [] => mkCost 0 0
  | (x, v) :: r =>
      match kv_lbl v with
      | None => mkCost 0 0
      | Some lb =>
          if (match prev with Some p => bytes_ltb x p | None => false end) then mkCost 0 0
          else
            let same := match stored_key tbl eon x with
                        | Some k => bytes_eqb (kv_bytes v) k
                        | None => false
                        end in
            if same then cost_add (mkCost 1 0) (cost_keys_loop tbl ks eon (Some x) r)
            else if verify_key ks x lb then cost_add (mkCost 1 1) (cost_keys_loop tbl ks eon (Some x) r)
            else mkCost 1 1
      end
  end.

Definition cost_validate_keys (st : cstate) (m : keys_msg) : cost :=
  match validate_prelude st (km_inst m) (km_eon m) (length (km_keys m)) with
  | PreReject _ => cost_prelude st (km_inst m) (km_eon m)
  | PreOk ks _ =>
      cost_add (cost_prelude st (km_inst m) (km_eon m))
               (cost_keys_loop (c_keys st) ks (Z.of_N (km_eon m)) None (km_keys m))
  end.

(* flavour validators: at most one keyper set lookup; one public-key recovery for the share
   signature; for a keys message at most one recovery per signature, and a message with more
   signatures than signers is refused before the first recovery *)
Definition cost_validate_shares_flavour (m : shares_msg) : cost := mkCost 1 1.
Definition cost_validate_keys_flavour (m : keys_msg) : cost :=
  mkCost 1 (Nat.min (length (k_sigs m)) (length (k_signers m))).
