(* Model of keyper/epochkg/epochkg.go (whole file): the per-identity collection of epoch
   secret key shares and the derivation of the epoch secret key at the threshold.

   Generic in the type [V] of group elements (shares and keys are both G1 points in the
   code).  The two calls into shlib/shcrypto are parameters:
     verify s x v  = shcrypto.VerifyEpochSecretKeyShare(v, PublicKeyShares[s], ComputeEpochID(x))
     combine l     = the Lagrange sum of shcrypto.ComputeEpochSecretKey over the (sender, share)
                     pairs of l, in the order of l
   (cryptography is idealised: see Proofs/EpochKGAlgebra.v for the exponent model and
   Corr/C01.v for the label model that is run against the real BLS code).

   Go map keys are identitypreimage.Hex() strings; Hex is injective on byte strings, so the
   model keys the maps by the identity bytes themselves.

   Machine integers: NumKeypers/Threshold/Sender are uint64 -> N.  The code compares
   `len(shares) != int(epochkg.Threshold)`; for Threshold >= 2^63 the cast is negative and never
   equals a length, and no slice reaches 2^63 elements, so comparing in N is the same
   decision for every reachable state. *)
From Coq Require Import List NArith ZArith Bool Lia.
From Verif Require Import Lib.Bytes Lib.Assoc.
Import ListNotations.
Open Scope N_scope.

Section EpochKG.
  Variable V : Type.
  Variable verify : N -> bytes -> V -> bool.
  Variable combine : list (N * V) -> V.

  (* epochkg.EpochSecretKeyShare (the Eon field is never read by epochkg.go) *)
  Record share := mkShare { sh_ident : bytes; sh_sender : N; sh_val : V }.

  (* EpochKG.SecretShares : map[string][]*EpochSecretKeyShare  (pending, arrival order)
     EpochKG.SecretKeys   : map[string]*shcrypto.EpochSecretKey (None = the nil pointer the
     code stores "in the error case") *)
  Record state := mkState {
    pending : amap (list (N * V));
    keys : amap (option V)
  }.

  Definition init : state := mkState [] [].

  Inductive outcome :=
  | Ok            (* nil error (also: key already known, share ignored) *)
  | ErrVerify     (* "cannot verify epoch secret key share from sender ..." *)
  | ErrDup        (* "already have EpochSecretKeyShare from sender ..." *)
  | ErrCombine    (* error returned by shcrypto.ComputeEpochSecretKey; nil key stored *)
  | Panic.        (* index out of range in PublicKeyShares[share.Sender] *)

  (* shcrypto.ComputeEpochSecretKey(keyperIndices, shares, threshold): the two slices are built
     from one list so the first length check cannot fail; the second is len != threshold *)
  Definition compute_epoch_secret_key (t : N) (shares : list (N * V)) : option V :=
    if N.of_nat (length shares) =? t then Some (combine shares) else None.

  Definition pending_of (st : state) (x : bytes) : list (N * V) :=
    match aget (pending st) x with Some l => l | None => [] end.

  (* addEpochSecretKeyShare *)
  Definition add_share (t : N) (st : state) (sh : share) : state * outcome :=
    let x := sh_ident sh in
    let shares := pending_of st x in
    if existsb (fun p => fst p =? sh_sender sh) shares then (st, ErrDup)
    else
      let shares' := shares ++ [(sh_sender sh, sh_val sh)] in
      if negb (N.of_nat (length shares') =? t) then
        (mkState (aset (pending st) x shares') (keys st), Ok)
      else
        let r := compute_epoch_secret_key t shares' in
        (mkState (adel (pending st) x) (aset (keys st) x r),
         match r with Some _ => Ok | None => ErrCombine end).

  (* HandleEpochSecretKeyShare; n = len(PublicKeyShares) (= NumKeypers for a DKG result) *)
  Definition handle_share (n t : N) (st : state) (sh : share) : state * outcome :=
    if amem (keys st) (sh_ident sh) then (st, Ok)
    else if n <=? sh_sender sh then (st, Panic)
    else if negb (verify (sh_sender sh) (sh_ident sh) (sh_val sh)) then (st, ErrVerify)
    else add_share t st sh.

  Definition step (n t : N) (st : state) (sh : share) : state := fst (handle_share n t st sh).

  Definition run_from (n t : N) (st : state) (l : list share) : state := fold_left (step n t) l st.
  Definition run (n t : N) (l : list share) : state := run_from n t init l.

  (* the outcomes of a run, one per share *)
  Fixpoint outcomes_from (n t : N) (st : state) (l : list share) : list outcome :=
    match l with
    | [] => []
    | sh :: r => let '(st', o) := handle_share n t st sh in o :: outcomes_from n t st' r
    end.
  Definition outcomes (n t : N) (l : list share) : list outcome := outcomes_from n t init l.

  Definition key_of (st : state) (x : bytes) : option (option V) := aget (keys st) x.
End EpochKG.

Arguments mkShare {V}.
Arguments sh_ident {V}.
Arguments sh_sender {V}.
Arguments sh_val {V}.
Arguments mkState {V}.
Arguments pending {V}.
Arguments keys {V}.
Arguments init {V}.
Arguments pending_of {V}.
Arguments key_of {V}.
