(* C06 - model of the signature rule for released decryption keys.

   Transcribed function by function from
     keyperimpl/gnosis/handlers.go          validateSignerIndices, ValidateDecryptionKeysBasic,
                                            ValidateDecryptionKeysSignatures, DecryptionKeysHandler.ValidateMessage
     keyperimpl/shutterservice/handlers.go  validateSignerIndices, ValidateDecryptionKeysSignatures
     keyperimpl/gnosis/gnosisssztypes, keyperimpl/shutterservice/serviceztypes
                                            New*SignatureData, CheckSignature
     chainobserver/db/keyper/extend.go      GetSubset
     gnosisaccessnode/decryptionkeyshandler.go  ValidateMessage, validateCommonFields, validateGnosisFields
   Definitions only; the proofs are in Proofs/KeysSig*.v.

   Idealisations (named in props/C06.json):
   * an ECDSA signature is a label: [SigBy a h] "the output of crypto.Sign under the key of address
     [a] over the 32-byte hash [h]", or something else ([SigMalformed]: public-key recovery fails,
     e.g. wrong length; [SigStray]: recovery succeeds and yields an address nobody holds).
     Recovering [SigBy a h] over another hash yields an address nobody holds.
   * the SSZ hash-tree-root is a function [hash] of the signed tuple, defined (no error) exactly
     on tuples whose identity list has at most 1024 entries of the fixed width (52 bytes Gnosis,
     32 bytes service).  [hash] and its decidable equality are Section variables; the theorems
     assume it injective on such tuples. *)
From Coq Require Import List NArith ZArith Bool Lia.
From Verif Require Import Lib.Bytes.
Import ListNotations.

Inductive flavour := Gnosis | Service.

(* One constructor per `return pubsub.ValidationReject` site (the drivers compare the class). *)
Inductive reason :=
| RSignerCount     (* "expected %d signers, got %d" *)
| RDuplicate       (* "duplicate signer index found" *)
| RUnordered       (* "signer indices not ordered" *)
| ROutOfRange      (* "signer index out of range" *)
| RSubset          (* GetSubset returned an error *)
| RTooManyIds      (* "failed to create ... signature data object" (more than 1024 identities) *)
| RCheckError      (* CheckSignature returned an error (hash-tree-root or public-key recovery) *)
| RInvalidSig      (* "... signature invalid" (recovered address differs) *)
| RSigCount        (* "expected one signature per signer, got %d signatures for %d signers" *)
(* ValidateDecryptionKeysBasic *)
| RExtraType | RExtraNil | RSlotTooLarge | RTxpTooLarge | RNoKeys
(* keyper ValidateMessage / access node *)
| RNoKeyperSet
| RInstance | REonOverflow | RNoKeysCommon | RTooManyKeys | RNoEonKey
| RKeyDecode | RKeyInvalid | RKeysUnordered.

Inductive verdict := Accept | Reject (r : reason) | Panic.

Definition reason_code (r : reason) : N :=
  match r with
  | RSignerCount => 1 | RDuplicate => 2 | RUnordered => 3 | ROutOfRange => 4 | RSubset => 5
  | RTooManyIds => 6 | RCheckError => 7 | RInvalidSig => 8
  | RExtraType => 9 | RExtraNil => 10 | RSlotTooLarge => 11 | RTxpTooLarge => 12 | RNoKeys => 13
  | RNoKeyperSet => 14 | RInstance => 15 | REonOverflow => 16 | RNoKeysCommon => 17
  | RTooManyKeys => 18 | RNoEonKey => 19 | RKeyDecode => 20 | RKeyInvalid => 21
  | RKeysUnordered => 22 | RSigCount => 23
  end%N.

Definition verdict_eqb (a b : verdict) : bool :=
  match a, b with
  | Accept, Accept => true
  | Panic, Panic => true
  | Reject r, Reject r' => N.eqb (reason_code r) (reason_code r')
  | _, _ => false
  end.

(* ------------------------------------------------------------------------------------- *)
(* Machine integers *)

(* Go's int32(x) of an int (64 bit): low 32 bits, two's complement *)
Definition to_i32 (z : Z) : Z :=
  let r := (z mod 2 ^ 32)%Z in if (r <? 2 ^ 31)%Z then r else (r - 2 ^ 32)%Z.

(* Go's int(x) of a uint64 on a 64-bit platform: two's-complement reinterpretation *)
Definition int_of_u64 (n : N) : Z :=
  let z := (Z.of_N n mod 2 ^ 64)%Z in if (z <? 2 ^ 63)%Z then z else (z - 2 ^ 64)%Z.

Definition max_int64 : N := (2 ^ 63 - 1)%N.
Definition max_int32 : N := (2 ^ 31 - 1)%N.

(* ------------------------------------------------------------------------------------- *)
(* Messages and keyper sets *)

(* what the `Extra` oneof of a DecryptionKeys message holds *)
Inductive extra_kind := ExGnosis | ExGnosisNil | ExService | ExNone.

(* what a key of the message is, relative to the eon key the access node stores *)
Inductive keylabel := KeyOk | KeyWrong | KeyUndecodable.

Record keysmsg := {
  m_inst : N;                       (* uint64 InstanceId *)
  m_eon : N;                        (* uint64 Eon *)
  m_extra : extra_kind;
  m_slot : N;                       (* uint64, Gnosis extra *)
  m_txp : N;                        (* uint64, Gnosis extra *)
  m_keys : list (bytes * keylabel)  (* Keys: identity preimage, key *)
}.

Definition m_ids (m : keysmsg) : list bytes := map fst (m_keys m).

(* obskeyperdatabase.KeyperSet: Keypers []string (None: a string shdb.DecodeAddress refuses),
   Threshold int32 *)
Record keyperset := { ks_keypers : list (option N); ks_threshold : Z }.

(* the data the signatures are over *)
Inductive tuple :=
| TGnosis (inst eon slot txp : N) (ids : list bytes)
| TService (inst eon : N) (ids : list bytes).

Definition signed_tuple (fl : flavour) (m : keysmsg) : tuple :=
  match fl with
  | Gnosis => TGnosis (m_inst m) (m_eon m) (m_slot m) (m_txp m) (m_ids m)
  | Service => TService (m_inst m) (m_eon m) (m_ids m)
  end.

Definition tuple_ids (t : tuple) : list bytes :=
  match t with TGnosis _ _ _ _ ids => ids | TService _ _ ids => ids end.

Definition tuple_width (t : tuple) : nat :=
  match t with TGnosis _ _ _ _ _ => 52%nat | TService _ _ _ => 32%nat end.

(* HashTreeRoot returns no error: `ssz-max:"1024"` list of `ssz-size:"52"` / `"32"` vectors *)
Definition hashable (t : tuple) : bool :=
  (length (tuple_ids t) <=? 1024)%nat
  && forallb (fun b => (length b =? tuple_width t)%nat) (tuple_ids t).

Fixpoint bytes_list_eqb (a b : list bytes) : bool :=
  match a, b with
  | [], [] => true
  | x :: a', y :: b' => bytes_eqb x y && bytes_list_eqb a' b'
  | _, _ => false
  end.

Definition tuple_eqb (a b : tuple) : bool :=
  match a, b with
  | TGnosis i e s p l, TGnosis i' e' s' p' l' =>
      N.eqb i i' && N.eqb e e' && N.eqb s s' && N.eqb p p' && bytes_list_eqb l l'
  | TService i e l, TService i' e' l' => N.eqb i i' && N.eqb e e' && bytes_list_eqb l l'
  | _, _ => false
  end.

(* ------------------------------------------------------------------------------------- *)
(* validateSignerIndices (identical in both flavours) *)

Fixpoint signer_loop (prev : option N) (l : list N) (n : N) : verdict :=
  match l with
  | [] => Accept
  | x :: r =>
      let range := if (n <=? x)%N then Reject ROutOfRange else signer_loop (Some x) r n in
      match prev with
      | None => range                                  (* i = 0 *)
      | Some p =>
          if (x =? p)%N then Reject RDuplicate
          else if (x <? p)%N then Reject RUnordered
          else range
      end
  end.

(* n is len(keyperSet.Keypers), an int >= 0; uint64(n) is the identity on it *)
Definition validate_signer_indices (signers : list N) (n : nat) : verdict :=
  signer_loop None signers (N.of_nat n).

(* ------------------------------------------------------------------------------------- *)
(* KeyperSet.GetSubset *)

Inductive subset_res := SubOk (l : list N) | SubErr | SubPanic.

Fixpoint get_subset (kp : list (option N)) (idx : list N) : subset_res :=
  match idx with
  | [] => SubOk []
  | i :: r =>
      if (N.of_nat (length kp) <=? i)%N then SubErr
      else match nth_error kp (N.to_nat i) with
           | None => SubPanic                           (* s.Keypers[i] *)
           | Some None => SubErr                        (* shdb.DecodeAddress error *)
           | Some (Some a) =>
               match get_subset kp r with
               | SubOk l => SubOk (a :: l)
               | e => e
               end
           end
  end.

(* ------------------------------------------------------------------------------------- *)
(* gnosis.ValidateDecryptionKeysBasic *)
Definition validate_basic (m : keysmsg) : verdict :=
  match m_extra m with
  | ExGnosis =>
      if (max_int64 <? m_slot m)%N then Reject RSlotTooLarge
      else if (max_int32 <? m_txp m)%N then Reject RTxpTooLarge
      else match m_keys m with [] => Reject RNoKeys | _ => Accept end
  | ExGnosisNil => Reject RExtraNil
  | _ => Reject RExtraType
  end.

(* gnosisaccessnode: Storage/Config and validateCommonFields *)
Record an_state := {
  an_instance : N;                         (* config.InstanceID *)
  an_maxkeys : N;                          (* config.MaxNumKeysPerMessage (uint64) *)
  an_eonkeys : list N;                     (* eons for which Storage holds an eon key *)
  an_keypersets : list (N * keyperset)     (* Storage.keyperSets *)
}.

Fixpoint lookup_ks (l : list (N * keyperset)) (eon : N) : option keyperset :=
  match l with
  | [] => None
  | (e, ks) :: r => if (e =? eon)%N then Some ks else lookup_ks r eon
  end.

(* SELECT ... FROM keyper_set WHERE keyper_config_index=$1 *)
Fixpoint lookup_db (l : list (Z * keyperset)) (idx : Z) : option keyperset :=
  match l with
  | [] => None
  | (i, ks) :: r => if (i =? idx)%Z then Some ks else lookup_db r idx
  end.

(* for i, k := range keys.Keys { GetEpochSecretKey; VerifyEpochSecretKey; ordering } *)
Fixpoint an_keys_loop (prev : option bytes) (l : list (bytes * keylabel)) : verdict :=
  match l with
  | [] => Accept
  | (id, lab) :: r =>
      match lab with
      | KeyUndecodable => Reject RKeyDecode
      | KeyWrong => Reject RKeyInvalid
      | KeyOk =>
          match prev with
          | Some p => if bytes_ltb id p then Reject RKeysUnordered else an_keys_loop (Some id) r
          | None => an_keys_loop (Some id) r
          end
      end
  end.

Definition an_validate_common (st : an_state) (m : keysmsg) : verdict :=
  if negb (m_inst m =? an_instance st)%N then Reject RInstance
  else if (max_int64 <? m_eon m)%N then Reject REonOverflow
  else if (length (m_keys m) =? 0)%nat then Reject RNoKeysCommon
  else if (int_of_u64 (an_maxkeys st) <? Z.of_nat (length (m_keys m)))%Z then Reject RTooManyKeys
  else if negb (existsb (N.eqb (m_eon m)) (an_eonkeys st)) then Reject RNoEonKey
  else an_keys_loop None (m_keys m).

(* ------------------------------------------------------------------------------------- *)
Section Ideal.
  (* hash-tree-root values, their equality, and the root of a hashable tuple *)
  Variable H : Type.
  Variable H_eqb : H -> H -> bool.
  Variable hash : tuple -> H.

  Inductive sig :=
  | SigBy (a : N) (h : H)     (* crypto.Sign(h, key of address a) *)
  | SigMalformed              (* crypto.SigToPub fails: length <> 65, bad recovery id, no point *)
  | SigStray.                 (* recovers to an address nobody holds *)

  Inductive recovered := RecErr | RecNobody | RecAddr (a : N).

  (* crypto.SigToPub followed by crypto.PubkeyToAddress *)
  Definition recover (h : H) (s : sig) : recovered :=
    match s with
    | SigBy a h' => if H_eqb h h' then RecAddr a else RecNobody
    | SigMalformed => RecErr
    | SigStray => RecNobody
    end.

  (* (d *SlotDecryptionSignatureData / *DecryptionSignatureData).CheckSignature:
     None = error, Some b = (b, nil) *)
  Definition check_signature (t : tuple) (s : sig) (addr : N) : option bool :=
    if hashable t then
      match recover (hash t) s with
      | RecErr => None
      | RecNobody => Some false
      | RecAddr a => Some (N.eqb a addr)
      end
    else None.

  (* for signatureIndex := 0; signatureIndex < len(Signatures); signatureIndex++ {
       signature := Signatures[signatureIndex]; signer := signers[signatureIndex]; ... } *)
  Fixpoint sig_loop (t : tuple) (signers : list N) (sigs : list sig) (i : nat) : verdict :=
    match sigs with
    | [] => Accept
    | s :: rest =>
        match nth_error signers i with
        | None => Panic                                  (* signers[signatureIndex] *)
        | Some a =>
            match check_signature t s a with
            | None => Reject RCheckError
            | Some false => Reject RInvalidSig
            | Some true => sig_loop t signers rest (S i)
            end
        end
    end.

  (* the part shared by both ValidateDecryptionKeysSignatures, from the signer-count test on
     (repaired code: /repo commits "fix: ... requires one signature per signer") *)
  Definition validate_sigs_common (fl : flavour) (ks : keyperset) (m : keysmsg)
             (signers : list N) (sigs : list sig) : verdict :=
    if negb (to_i32 (Z.of_nat (length signers)) =? ks_threshold ks)%Z then Reject RSignerCount
    else if negb (length sigs =? length signers)%nat then Reject RSigCount
    else
      match validate_signer_indices signers (length (ks_keypers ks)) with
      | Accept =>
          match get_subset (ks_keypers ks) signers with
          | SubErr => Reject RSubset
          | SubPanic => Panic
          | SubOk addrs =>
              if (1024 <? length (m_ids m))%nat then Reject RTooManyIds
              else sig_loop (signed_tuple fl m) addrs sigs 0
          end
      | v => v
      end.

  (* gnosis.ValidateDecryptionKeysSignatures / shutterservice.ValidateDecryptionKeysSignatures *)
  Definition validate_sigs (fl : flavour) (ks : keyperset) (m : keysmsg)
             (signers : list N) (sigs : list sig) : verdict :=
    match fl with
    | Gnosis => validate_sigs_common Gnosis ks m signers sigs
    | Service =>
        (* // Allow for empty signatures and signer indices
           if len(extra.SignerIndices) == 0 && len(extra.Signature) == 0 { return Accept }
           (repaired code: /repo commit "fix: shutter service admits unsigned keys only when
           signers and signatures are both empty") *)
        if ((length signers =? 0)%nat && (length sigs =? 0)%nat)%bool then Accept
        else validate_sigs_common Service ks m signers sigs
    end.

  (* The same two functions as they were before the repairs (pinned tree 1c8846f): no test of
     the number of signatures, and `||` in the service flavour's early return. Kept so that
     the refutations stay checkable. *)
  Definition legacy_validate_sigs_common (fl : flavour) (ks : keyperset) (m : keysmsg)
             (signers : list N) (sigs : list sig) : verdict :=
    if negb (to_i32 (Z.of_nat (length signers)) =? ks_threshold ks)%Z then Reject RSignerCount
    else
      match validate_signer_indices signers (length (ks_keypers ks)) with
      | Accept =>
          match get_subset (ks_keypers ks) signers with
          | SubErr => Reject RSubset
          | SubPanic => Panic
          | SubOk addrs =>
              if (1024 <? length (m_ids m))%nat then Reject RTooManyIds
              else sig_loop (signed_tuple fl m) addrs sigs 0
          end
      | v => v
      end.

  Definition legacy_validate_sigs (fl : flavour) (ks : keyperset) (m : keysmsg)
             (signers : list N) (sigs : list sig) : verdict :=
    match fl with
    | Gnosis => legacy_validate_sigs_common Gnosis ks m signers sigs
    | Service =>
        if ((length signers =? 0)%nat || (length sigs =? 0)%nat)%bool then Accept
        else legacy_validate_sigs_common Service ks m signers sigs
    end.

  (* gnosis.DecryptionKeysHandler.ValidateMessage with the database lookup of the keyper set
     abstracted to its result ([None]: GetKeyperSetByKeyperConfigIndex returned an error) *)
  Definition keyper_validate_gnosis (lookup : option keyperset) (m : keysmsg)
             (signers : list N) (sigs : list sig) : verdict :=
    match validate_basic m with
    | Accept =>
        match lookup with
        | None => Reject RNoKeyperSet
        | Some ks => validate_sigs Gnosis ks m signers sigs
        end
    | v => v
    end.

  (* the same with the database: the keyper_set table as (keyper_config_index, set) rows (the
     index is the primary key), looked up with `int64(keys.Eon)` *)
  Definition keyper_validate_gnosis_db (db : list (Z * keyperset)) (m : keysmsg)
             (signers : list N) (sigs : list sig) : verdict :=
    keyper_validate_gnosis (lookup_db db (int_of_u64 (m_eon m))) m signers sigs.

  (* ----------------------------------------------------------------------------------- *)
  (* gnosisaccessnode.DecryptionKeysHandler *)

  Definition an_validate_gnosis (st : an_state) (m : keysmsg)
             (signers : list N) (sigs : list sig) : verdict :=
    match validate_basic m with
    | Accept =>
        match lookup_ks (an_keypersets st) (m_eon m) with
        | None => Reject RNoKeyperSet
        | Some ks => validate_sigs Gnosis ks m signers sigs
        end
    | v => v
    end.

  Definition an_validate (st : an_state) (m : keysmsg) (signers : list N) (sigs : list sig)
    : verdict :=
    match an_validate_common st m with
    | Accept => an_validate_gnosis st m signers sigs
    | v => v
    end.
End Ideal.

Arguments SigBy {H}.
Arguments SigMalformed {H}.
Arguments SigStray {H}.

(* The executable instance used by the correspondence stream: the hash-tree-root of a tuple
   is the tuple itself. *)
Definition csig := sig tuple.
Definition c_validate_sigs := validate_sigs tuple tuple_eqb (fun t => t).
Definition c_legacy_validate_sigs := legacy_validate_sigs tuple tuple_eqb (fun t => t).
Definition c_keyper_validate_gnosis := keyper_validate_gnosis tuple tuple_eqb (fun t => t).
Definition c_keyper_validate_gnosis_db := keyper_validate_gnosis_db tuple tuple_eqb (fun t => t).
Definition c_an_validate := an_validate tuple tuple_eqb (fun t => t).
