(* Model of keyperimpl/shutterservice/eventtrigger.go (event trigger definitions): Validate,
   the versioned RLP codec (MarshalBytes / UnmarshalBytes, EncodeRLP / DecodeRLP of
   ValuePredicate and what go-ethereum's struct reflection does for the other types),
   GetValue / Match, ToFilterQuery, and go-ethereum's log filter rule (eth/filters
   filterLogs).  Definitions only.

   Conventions: Go's uint64 arithmetic is written with explicit wrap-around (u64); a slice
   expression is the checked [slice] (None = run-time panic, cap(log.Data) = len(log.Data) is
   assumed, which the driver enforces); *big.Int arguments are [option Z] (None = nil
   pointer); nil and empty byte slices are identified (the code only uses len, bytes.Equal
   and SetBytes on them).

   The functions that this development found defective on the pinned tree are kept as
   [legacy_...] next to their repaired versions (see known_findings/C17.json). *)
From Coq Require Import List NArith ZArith Bool.
From Verif Require Import Lib.Bytes Lib.Rlp.
Import ListNotations.

Record pred := mkPred {
  p_dyn : bool;              (* LogValueRef.Dynamic *)
  p_off : N;                 (* LogValueRef.Offset (uint64) *)
  p_op : N;                  (* ValuePredicate.Op (uint64) *)
  p_ints : list (option Z);  (* ValuePredicate.IntArgs *)
  p_bytes : list bytes       (* ValuePredicate.ByteArgs *)
}.

Record def := mkDef { d_contract : bytes; d_preds : list pred }.

Record log := mkLog { l_addr : bytes; l_topics : list bytes; l_data : bytes }.

(* what Go's types guarantee and Validate therefore does not check *)
Definition wf_def (d : def) : Prop := length (d_contract d) = 20%nat.

(* ---- Validate ------------------------------------------------------------------------ *)

Definition op_valid (op : N) : bool := (op <=? 5)%N.
Definition num_int_args (op : N) : nat := if (op <=? 4)%N then 1 else 0.
Definition num_byte_args (op : N) : nat := if (op =? 5)%N then 1 else 0.

Definition is_topic (p : pred) : bool := (p_off p <? 4)%N.

(* LogValueRef.Validate *)
Definition ref_validate (p : pred) : bool :=
  (p_off p <=? 4294967295)%N && negb (p_dyn p && (p_off p <? 4)%N).

Definition int_arg_ok (a : option Z) : bool :=
  match a with None => false | Some z => (0 <=? z)%Z end.

(* ValuePredicate.Validate: Op.Validate, validateArgNums, validateArgValues *)
Definition vp_validate (p : pred) : bool :=
  op_valid (p_op p)
  && Nat.eqb (length (p_ints p)) (num_int_args (p_op p))
  && Nat.eqb (length (p_bytes p)) (num_byte_args (p_op p))
  && forallb int_arg_ok (p_ints p).

Definition is_topic_eq (p : pred) : bool := is_topic p && (p_op p =? 5)%N.

(* LogPredicate.Validate as on the pinned tree *)
Definition legacy_lp_validate (p : pred) : bool := ref_validate p && vp_validate p.

(* the second loop of EventTriggerDefinition.Validate; [seen] is topicMap *)
Fixpoint no_dup_topics (ps : list pred) (seen : list N) : bool :=
  match ps with
  | [] => true
  | p :: r =>
      if is_topic_eq p then
        if existsb (N.eqb (p_off p)) seen then false else no_dup_topics r (p_off p :: seen)
      else no_dup_topics r seen
  end.

Definition validate_with (lpv : pred -> bool) (d : def) : bool :=
  forallb lpv (d_preds d) && no_dup_topics (d_preds d) [].

Definition legacy_validate : def -> bool := validate_with legacy_lp_validate.

(* LogPredicate.Validate after the repair (commit 2ce1f88): a BytesEq predicate for a topic
   needs a 32-byte argument.  ByteArgs[0] exists because ValuePredicate.Validate passed. *)
Definition lp_validate (p : pred) : bool :=
  ref_validate p && vp_validate p
  && (if is_topic_eq p then
        match p_bytes p with
        | a :: _ => Nat.eqb (length a) 32
        | [] => false   (* not reached: vp_validate demands one byte argument *)
        end
      else true).

Definition validate : def -> bool := validate_with lp_validate.

(* ---- codec --------------------------------------------------------------------------- *)

Definition bool_item (b : bool) : item := Str (if b then [1%N] else []).
Definition uint_item (n : N) : item := Str (be_bytes n).

(* rlp writeBigIntPtr: nil -> 0x80, negative -> error *)
Definition int_arg_item (a : option Z) : option item :=
  match a with
  | None => Some (Str [])
  | Some z => if (z <? 0)%Z then None else Some (Str (be_bytes (Z.to_N z)))
  end.

Fixpoint int_arg_items (l : list (option Z)) : option (list item) :=
  match l with
  | [] => Some []
  | a :: r =>
      match int_arg_item a, int_arg_items r with
      | Some x, Some xs => Some (x :: xs)
      | _, _ => None
      end
  end.

(* LogPredicate = [[Dynamic, Offset], ValuePredicate.EncodeRLP = [op, ints..., bytes...]] *)
Definition pred_item (p : pred) : option item :=
  match int_arg_items (p_ints p) with
  | None => None
  | Some ints =>
      Some (Lst [Lst [bool_item (p_dyn p); uint_item (p_off p)];
                 Lst (uint_item (p_op p) :: ints ++ map Str (p_bytes p))])
  end.

Fixpoint pred_items (ps : list pred) : option (list item) :=
  match ps with
  | [] => Some []
  | p :: r =>
      match pred_item p, pred_items r with
      | Some x, Some xs => Some (x :: xs)
      | _, _ => None
      end
  end.

(* None = rlp.Encode returns an error (negative integer) *)
Definition to_item (d : def) : option item :=
  match pred_items (d_preds d) with
  | None => None
  | Some ps => Some (Lst [Str (d_contract d); Lst ps])
  end.

Definition version : N := 2.

(* MarshalBytes; None = the panic("failed to encode ...") *)
Definition marshal (d : def) : option bytes :=
  match to_item d with
  | None => None
  | Some it => Some (version :: encode it)
  end.

(* Stream.uint / Stream.BigInt: a string without a leading zero byte *)
Definition int_of_bytes (b : bytes) : option N :=
  match b with 0%N :: _ => None | _ => Some (be b) end.

Definition uint64_of_item (it : item) : option N :=
  match it with
  | Str b => if Nat.leb (length b) 8 then int_of_bytes b else None
  | Lst _ => None
  end.

Definition bigint_of_item (it : item) : option N :=
  match it with Str b => int_of_bytes b | Lst _ => None end.

Definition bool_of_item (it : item) : option bool :=
  match it with
  | Str [] => Some false
  | Str [1%N] => Some true
  | _ => None
  end.

(* ValuePredicate.DecodeRLP on the elements of its list *)
Definition vp_of_items (l : list item) : option (N * list (option Z) * list bytes) :=
  match l with
  | [] => None
  | opi :: r =>
      match uint64_of_item opi with
      | None => None
      | Some op =>
          if negb (op_valid op) then None
          else if (op <=? 4)%N then
            match r with
            | [a] => match bigint_of_item a with
                     | Some n => Some (op, [Some (Z.of_N n)], [])
                     | None => None
                     end
            | _ => None
            end
          else
            match r with
            | [Str b] => Some (op, [], [b])
            | _ => None
            end
      end
  end.

Definition pred_of_item (it : item) : option pred :=
  match it with
  | Lst [Lst [dy; off]; Lst vp] =>
      match bool_of_item dy, uint64_of_item off, vp_of_items vp with
      | Some dyn, Some o, Some (op, ints, bs) => Some (mkPred dyn o op ints bs)
      | _, _, _ => None
      end
  | _ => None
  end.

Fixpoint preds_of_items (l : list item) : option (list pred) :=
  match l with
  | [] => Some []
  | x :: r =>
      match pred_of_item x, preds_of_items r with
      | Some p, Some ps => Some (p :: ps)
      | _, _ => None
      end
  end.

Definition of_item (it : item) : option def :=
  match it with
  | Lst [Str c; Lst ps] =>
      if Nat.eqb (length c) 20 then
        match preds_of_items ps with
        | Some l => Some (mkDef c l)
        | None => None
        end
      else None
  | _ => None
  end.

Inductive ures := UOk (d : def) | UEmpty | UVersion | UDecode | UInvalid | UFuel.

Definition unmarshal_with (val : def -> bool) (b : bytes) : ures :=
  match b with
  | [] => UEmpty
  | v :: r =>
      if negb (v =? version)%N then UVersion
      else match decode r with
           | DFuel => UFuel
           | DErr => UDecode
           | DOk it =>
               match of_item it with
               | None => UDecode
               | Some d => if val d then UOk d else UInvalid
               end
           end
  end.

Definition legacy_unmarshal : bytes -> ures := unmarshal_with legacy_validate.
Definition unmarshal : bytes -> ures := unmarshal_with validate.

(* ---- GetValue / Match ---------------------------------------------------------------- *)

Definition u64 (x : Z) : Z := (x mod 18446744073709551616)%Z.
Definition zlen (b : bytes) : Z := Z.of_nat (length b).

(* s[lo:hi]; None = "slice bounds out of range" *)
Definition slice (s : bytes) (lo hi : Z) : option bytes :=
  if ((0 <=? lo) && (lo <=? hi) && (hi <=? zlen s))%Z
  then Some (firstn (Z.to_nat (hi - lo)) (skipn (Z.to_nat lo) s))
  else None.

(* v := make([]byte, n); copy(v, src) *)
Definition copy_into (n : nat) (src : bytes) : bytes :=
  firstn n src ++ repeat 0%N (n - length src).

Inductive vres := VOk (v : bytes) | VPanic.

(* big.Int.SetBytes(word).Uint64(): the low 64 bits *)
Definition word_u64 (w : bytes) : Z := u64 (Z.of_N (be w)).

(* the static branch of GetValue *)
Definition get_static_value (p : pred) (lg : log) : vres :=
  let data := l_data lg in
  let dataOffset := u64 (Z.of_N (p_off p) - 4) in
  let startByte := u64 (dataOffset * 32) in
  let endByte := u64 ((dataOffset + 1) * 32) in
  if (startByte <? zlen data)%Z then
    let availableEnd := if (endByte <? zlen data)%Z then endByte else zlen data in
    match slice data startByte availableEnd with
    | None => VPanic
    | Some s => VOk (copy_into 32 s)
    end
  else VOk (repeat 0%N 32).

(* runtime.makeslice refuses a byte length above maxAlloc = 2^48 (linux/amd64) *)
Definition max_alloc : Z := 281474976710656.

(* getOffsetDataValue as on the pinned tree *)
Definition legacy_get_offset_data_value (p : pred) (lg : log) : vres :=
  let data := l_data lg in
  let dataOffset := u64 (Z.of_N (p_off p) - 4) in
  let offsetStartByte := u64 (dataOffset * 32) in
  match slice data offsetStartByte (u64 (offsetStartByte + 32)) with
  | None => VPanic
  | Some x =>
      let lengthByteOffset := word_u64 x in
      match slice data lengthByteOffset (u64 (lengthByteOffset + 32)) with
      | None => VPanic
      | Some y =>
          let len := word_u64 y in
          if (max_alloc <? len)%Z then VPanic   (* makeslice: len out of range *)
          else
            let startByte := u64 (lengthByteOffset + 32) in
            let endByte := u64 (startByte + len) in
            if (startByte <? zlen data)%Z then
              let availableEnd := if (endByte <? zlen data)%Z then endByte else zlen data in
              match slice data startByte availableEnd with
              | None => VPanic
              | Some s => VOk (copy_into (Z.to_nat len) s)
              end
            else VOk (repeat 0%N (Z.to_nat len))
      end
  end.

(* readWordAsUint64 (repair 9dbf1bd): RNo = "not ok", RPanic cannot happen (proved) *)
Inductive rres := RWord (w : Z) | RNo | RPanic.

Definition read_word_u64 (data : bytes) (start : Z) : rres :=
  let dataLen := zlen data in
  if ((dataLen <? 32) || (u64 (dataLen - 32) <? start))%Z then RNo
  else match slice data start (u64 (start + 32)) with
       | None => RPanic
       | Some w => RWord (word_u64 w)
       end.

(* getOffsetDataValue after the repair (commit 9dbf1bd) *)
Definition get_offset_data_value (p : pred) (lg : log) : vres :=
  let data := l_data lg in
  let dataOffset := u64 (Z.of_N (p_off p) - 4) in
  let offsetStartByte := u64 (dataOffset * 32) in
  match read_word_u64 data offsetStartByte with
  | RPanic => VPanic
  | RNo => VOk []
  | RWord lengthByteOffset =>
      match read_word_u64 data lengthByteOffset with
      | RPanic => VPanic
      | RNo => VOk []
      | RWord len =>
          let startByte := u64 (lengthByteOffset + 32) in
          if (u64 (zlen data - startByte) <? len)%Z then VOk []
          else if (max_alloc <? len)%Z then VPanic   (* makeslice; not reached *)
          else match slice data startByte (u64 (startByte + len)) with
               | None => VPanic
               | Some s => VOk (copy_into (Z.to_nat len) s)
               end
      end
  end.

(* LogValueRef.GetValue, over the dynamic-reference reader [godv] *)
Definition get_value_with (godv : pred -> log -> vres) (p : pred) (lg : log) : vres :=
  if is_topic p then
    match nth_error (l_topics lg) (N.to_nat (p_off p)) with
    | None => VOk []          (* returns nil *)
    | Some t => VOk t
    end
  else if p_dyn p then godv p lg
  else get_static_value p lg.

Inductive mres := MOk (b : bool) | MErr | MPanic.

(* ValuePredicate.Match; IntArgs[0] / ByteArgs[0] panic when absent, Cmp(nil) panics *)
Definition vp_match (p : pred) (v : bytes) : mres :=
  let n := Z.of_N (be v) in
  let int_cmp (f : Z -> Z -> bool) : mres :=
    match p_ints p with
    | Some a :: _ => MOk (f n a)
    | _ => MPanic
    end in
  match p_op p with
  | 0%N => int_cmp Z.ltb
  | 1%N => int_cmp Z.leb
  | 2%N => int_cmp Z.eqb
  | 3%N => int_cmp Z.gtb
  | 4%N => int_cmp Z.geb
  | 5%N => match p_bytes p with
           | a :: _ => MOk (bytes_eqb v a)
           | [] => MPanic
           end
  | _ => MErr
  end.

Definition lp_match_with (godv : pred -> log -> vres) (p : pred) (lg : log) : mres :=
  match get_value_with godv p lg with
  | VPanic => MPanic
  | VOk v => vp_match p v
  end.

Fixpoint match_preds_with (godv : pred -> log -> vres) (ps : list pred) (lg : log) : mres :=
  match ps with
  | [] => MOk true
  | p :: r =>
      match lp_match_with godv p lg with
      | MOk true => match_preds_with godv r lg
      | MOk false => MOk false
      | e => e
      end
  end.

(* EventTriggerDefinition.Match *)
Definition match_with (godv : pred -> log -> vres) (d : def) (lg : log) : mres :=
  if negb (bytes_eqb (l_addr lg) (d_contract d)) then MOk false
  else match_preds_with godv (d_preds d) lg.

Definition legacy_match : def -> log -> mres := match_with legacy_get_offset_data_value.

Definition get_value : pred -> log -> vres := get_value_with get_offset_data_value.
Definition lp_match : pred -> log -> mres := lp_match_with get_offset_data_value.
Definition match_preds : list pred -> log -> mres := match_preds_with get_offset_data_value.
Definition match_def : def -> log -> mres := match_with get_offset_data_value.

(* len(log.Data) cannot exceed what the Go runtime can allocate *)
Definition wf_log (lg : log) : Prop := (zlen (l_data lg) <= max_alloc)%Z.

(* ---- ToFilterQuery and the node-side filter ------------------------------------------ *)

Inductive fres := FOk (topics : list (list bytes)) | FErr | FPanic.

Fixpoint set_nth {A} (i : nat) (x : A) (l : list A) : list A :=
  match l, i with
  | [], _ => []
  | _ :: r, O => x :: r
  | y :: r, S j => y :: set_nth j x r
  end.

Fixpoint to_filter_loop (ps : list pred) (topics : list (list bytes)) : fres :=
  match ps with
  | [] => FOk topics
  | p :: r =>
      if negb (is_topic p) then to_filter_loop r topics
      else if negb (p_op p =? 5)%N then to_filter_loop r topics
      else
        let idx := N.to_nat (p_off p) in
        (* for uint64(len(topics)) <= topicIndex { topics = append(topics, {}) } *)
        let topics := topics ++ repeat [] (S idx - length topics) in
        match nth_error topics idx with
        | None => FPanic
        | Some cur =>
            match cur with
            | _ :: _ => FErr                       (* multiple log predicates for topic *)
            | [] =>
                match p_bytes p with
                | [] => FPanic                      (* ByteArgs[0] *)
                | topic :: _ =>
                    if Nat.eqb (length topic) 32
                    then to_filter_loop r (set_nth idx [topic] topics)
                    else FErr
                end
            end
        end
  end.

(* ToFilterQuery: Addresses = [Contract], Topics as computed *)
Definition to_filter (d : def) : fres := to_filter_loop (d_preds d) [].

(* go-ethereum eth/filters filterLogs with Addresses = [contract] and no block bounds *)
Fixpoint topics_pass (q : list (list bytes)) (ts : list bytes) : bool :=
  match q, ts with
  | [], _ => true
  | _ :: _, [] => false                             (* len(topics) > len(log.Topics) *)
  | sub :: q', t :: ts' =>
      (match sub with [] => true | _ => existsb (bytes_eqb t) sub end) && topics_pass q' ts'
  end.

Definition passes_filter (contract : bytes) (q : list (list bytes)) (lg : log) : bool :=
  bytes_eqb (l_addr lg) contract && topics_pass q (l_topics lg).
