(* The ABCI events the shuttermint application emits, as exact wire text: the events of the
   application model (Model/App.v, raw bytes as received in the transaction) are mapped to the
   event structs of keyper/shutterevents (Model/Events.v) the way app.go builds them, and
   written with MakeABCIEvent.

   app.go builds the structs from the message after its checks:
     CheckIn.EncryptionPublicKey  = ecies.ImportECDSAPublic(crypto.DecompressPubkey(msg key))
     PolyCommitment.Gammas        = the points blst.Uncompress gives for the 96-byte strings
     Apology.PolyEval             = big.Int.SetBytes of each byte string
     BatchConfig                  = the config (Started / ValidatorsUpdated are not serialised)
   [key_of] and [pt_of] are those two dependency functions.  Definitions only. *)
From Coq Require Import String Ascii List NArith ZArith Bool.
From Verif Require Import Lib.Bytes Generated.EventSchema Model.Events.
From Verif Require Model.App.
Import ListNotations.
Open Scope N_scope.

Section AppWire.

Variable point : Type.
Variable key : Type.
Variable cs : bytes -> list bool.
Variable enc_pt : point -> bytes.
Variable enc_key : key -> bytes.
Variable pt_of : bytes -> point.     (* blst Uncompress of a compressed point that passed the checks *)
Variable key_of : bytes -> key.      (* crypto.DecompressPubkey of a key that passed the check *)

Definition to_wire (e : App.event) : event point key :=
  match e with
  | App.EvCheckIn s k => EvCheckIn point key 0 s (key_of k)
  | App.EvBatchConfig a t ks i => EvBatchConfig point key 0 ks a t i false false
  | App.EvBatchConfigStarted i => EvBatchConfigStarted point key 0 i
  | App.EvEonStarted e a i => EvEonStarted point key 0 e a i
  | App.EvPolyEval s e rs evs => EvPolyEval point key 0 s e rs evs
  | App.EvPolyCommitment s e gs => EvPolyCommitment point key 0 e s (map pt_of gs)
  | App.EvAccusation s e acc => EvAccusation point key 0 e s acc
  | App.EvApology s e acc evs => EvApology point key 0 e s acc (map of_be_bytes evs)
  end.

Definition app_abci_event (e : App.event) : outcome abci_event :=
  make_abci_event point key cs enc_pt enc_key (to_wire e).

(* the events of one response *)
Definition response_events (r : App.response) : option (list App.event) :=
  match r with
  | App.RBegin evs => Some evs
  | App.RCheck _ => Some []
  | App.RDeliver _ evs => Some evs
  | App.REnd _ evs => Some evs
  | App.RCommit => Some []
  | App.RPanic => None
  end.

End AppWire.
